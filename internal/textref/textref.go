// Package textref is the reference text buffer of the LSP specification:
// lines end at LF, CRLF or CR; characters are UTF-16 code units.
package textref

import "unicode/utf8"

type Pos struct{ Line, Char int }

// Line describes one line: [Start,End) is its content without the EOL,
// Next is the offset of the following line (== len(text) for the last one).
type Line struct{ Start, End, Next int }

func Lines(text string) []Line {
	var ls []Line
	start := 0
	i := 0
	for i < len(text) {
		c := text[i]
		if c == '\n' {
			ls = append(ls, Line{start, i, i + 1})
			i++
			start = i
		} else if c == '\r' {
			if i+1 < len(text) && text[i+1] == '\n' {
				ls = append(ls, Line{start, i, i + 2})
				i += 2
			} else {
				ls = append(ls, Line{start, i, i + 1})
				i++
			}
			start = i
		} else {
			i++
		}
	}
	ls = append(ls, Line{start, len(text), len(text)})
	return ls
}

// Units returns the UTF-16 length of s.
func Units(s string) int {
	n := 0
	for _, r := range s {
		if r >= 0x10000 {
			n += 2
		} else {
			n++
		}
	}
	return n
}

// Offset converts a position to a byte offset.  clamped reports that the
// character was beyond the line end (LSP: defaults back to the line length);
// ok is false when the line does not exist or the position falls inside a
// surrogate pair.
func Offset(text string, p Pos) (off int, clamped bool, ok bool) {
	ls := Lines(text)
	if p.Line < 0 || p.Line >= len(ls) || p.Char < 0 {
		return 0, false, false
	}
	l := ls[p.Line]
	u := 0
	i := l.Start
	for i < l.End {
		if u == p.Char {
			return i, false, true
		}
		r, sz := utf8.DecodeRuneInString(text[i:l.End])
		w := 1
		if r >= 0x10000 {
			w = 2
		}
		if u+w > p.Char {
			return 0, false, false // inside a surrogate pair
		}
		u += w
		i += sz
	}
	if u == p.Char {
		return l.End, false, true
	}
	return l.End, true, true
}

// ValidPositions lists every position a conformant client can send for text:
// each line, each UTF-16 boundary from 0 to the line length inclusive.
func ValidPositions(text string) []Pos {
	var ps []Pos
	for li, l := range Lines(text) {
		u := 0
		ps = append(ps, Pos{li, 0})
		for _, r := range text[l.Start:l.End] {
			if r >= 0x10000 {
				u += 2
			} else {
				u++
			}
			ps = append(ps, Pos{li, u})
		}
	}
	return ps
}

// Less orders positions.
func Less(a, b Pos) bool { return a.Line < b.Line || a.Line == b.Line && a.Char < b.Char }

// Apply splices insert over [start,end).  ok=false if either end is not a
// position of the buffer (after clamping) or start > end.
func Apply(text string, start, end Pos, insert string) (string, bool) {
	so, _, ok1 := Offset(text, start)
	eo, _, ok2 := Offset(text, end)
	if !ok1 || !ok2 || so > eo {
		return text, false
	}
	return text[:so] + insert + text[eo:], true
}

// PosAt converts a byte offset (on a rune boundary) to a position.
func PosAt(text string, off int) Pos {
	ls := Lines(text)
	for li, l := range ls {
		if off <= l.End || li == len(ls)-1 || off < l.Next {
			if off > l.End {
				off = l.End
			}
			return Pos{li, Units(text[l.Start:off])}
		}
	}
	return Pos{}
}
