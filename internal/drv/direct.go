package drv

import (
	"context"
	"encoding/json"
	"fmt"
	"io"
	"reflect"
	"sync"
	"time"

	"luahelper-lsp/langserver"
	"luahelper-lsp/langserver/check/common"
	"luahelper-lsp/langserver/log"
)

// handler methods by LSP method name (the table of langserver.CreateServer)
var directTable = map[string]string{
	"initialize": "Initialize", "initialized": "Initialized",
	"textDocument/didChange": "TextDocumentDidChange", "textDocument/didSave": "TextDocumentDidSave",
	"textDocument/didOpen": "TextDocumentDidOpen", "textDocument/didClose": "TextDocumentDidClose",
	"textDocument/definition": "TextDocumentDefine", "textDocument/hover": "TextDocumentHover",
	"textDocument/references": "TextDocumentReferences", "textDocument/documentSymbol": "TextDocumentSymbol",
	"textDocument/rename": "TextDocumentRename", "textDocument/documentHighlight": "TextDocumentHighlight",
	"textDocument/signatureHelp": "TextDocumentSignatureHelp", "textDocument/documentColor": "TextDocumentColor",
	"textDocument/completion": "TextDocumentComplete", "workspace/didChangeConfiguration": "ChangeConfiguration",
	"workspace/didChangeWatchedFiles": "WorkspaceChangeWatchedFiles", "workspace/symbol": "WorkspaceSymbolRequest",
	"luahelper/getVarColor": "TextDocumentGetVarColor",
}

// StartDirect creates the real LspServer (with its jrpc2 server attached to an in-memory channel for pushes only)
// and performs initialize / initialized by calling the handler methods directly on the calling goroutine.
// It is the driver of the controlled (scheduled) executions, where handlers must run on managed threads.
func StartDirect(root string, o Options) (*Server, error) {
	log.InitLog(false)
	common.GlobalConfigDefautInit()
	common.GConfig.IntialGlobalVar()
	s := &Server{Root: root, Diags: map[string][]Diag{}, Timeout: 120 * time.Second, direct: true}
	s.cond = nil
	// the server's pushes are folded synchronously in the pushing goroutine: no reader goroutine, no timing
	pc := &pushChannel{s: s, closed: make(chan struct{})}
	s.cli = pc
	s.srv = langserver.CreateServer()
	s.srv.Start(pc)
	s.l = langserver.VerifServer()
	params := map[string]interface{}{"processId": 1, "rootPath": root, "rootUri": "file://" + root, "capabilities": map[string]interface{}{}}
	if o.InitOptions != nil {
		params["initializationOptions"] = o.InitOptions
	}
	if err := s.Call("initialize", params, nil); err != nil {
		s.Close()
		return nil, err
	}
	if !o.NoInitialized {
		s.Notify("initialized", map[string]interface{}{})
	}
	return s, nil
}

// pushChannel is the server side of the transport in direct mode: Send receives the server's pushes,
// Recv blocks until Close (no client message ever arrives: handlers are called directly).
type pushChannel struct {
	s      *Server
	closed chan struct{}
	once   sync.Once
}

func (p *pushChannel) Send(b []byte) error {
	var m msg
	if json.Unmarshal(b, &m) == nil {
		p.s.mu.Lock()
		p.s.inbox = append(p.s.inbox, &m)
		p.s.mu.Unlock()
	}
	return nil
}
func (p *pushChannel) Recv() ([]byte, error) {
	<-p.closed
	return nil, io.EOF
}
func (p *pushChannel) Close() error {
	p.once.Do(func() { close(p.closed) })
	return nil
}

func (s *Server) directReader() {
	for {
		b, err := s.cli.Recv()
		if err != nil {
			return
		}
		var m msg
		if json.Unmarshal(b, &m) == nil {
			s.mu.Lock()
			s.inbox = append(s.inbox, &m)
			s.mu.Unlock()
		}
	}
}

func (s *Server) directFold() {
	s.mu.Lock()
	in := s.inbox
	s.inbox = nil
	s.mu.Unlock()
	for _, m := range in {
		s.fold(m)
	}
}

// directCall invokes the handler method for an LSP method with JSON-converted parameters.
func (s *Server) directCall(method string, params interface{}, result interface{}) error {
	name, ok := directTable[method]
	if !ok {
		return &RPCError{-32601, "no such method " + method}
	}
	m := reflect.ValueOf(s.l).MethodByName(name)
	if !m.IsValid() {
		return fmt.Errorf("handler %s not found", name)
	}
	args := []reflect.Value{reflect.ValueOf(context.Background())}
	if m.Type().NumIn() == 2 {
		pv := reflect.New(m.Type().In(1))
		b, err := json.Marshal(params)
		if err != nil {
			return err
		}
		if err := json.Unmarshal(b, pv.Interface()); err != nil {
			return &RPCError{-32602, "invalid parameters: " + err.Error()}
		}
		args = append(args, pv.Elem())
	}
	outs := m.Call(args)
	if s.AfterHandler != nil {
		// the transport encodes the reply after the handler has returned (and released its locks)
		s.AfterHandler()
	}
	s.directFold()
	if e := outs[len(outs)-1]; !e.IsNil() {
		return e.Interface().(error)
	}
	if len(outs) == 2 && result != nil {
		b, err := json.Marshal(outs[0].Interface())
		if err != nil {
			return err
		}
		return json.Unmarshal(b, result)
	}
	return nil
}
