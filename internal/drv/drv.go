// Package drv drives the real LuaHelper server in process: the real
// jrpc2.Server built by langserver.CreateServer() on one end of an in-memory
// channel, a minimal ordered JSON-RPC client on the other.
package drv

import (
	"encoding/json"
	"fmt"
	"os"
	"path/filepath"
	"regexp"
	"sort"
	"strconv"
	"strings"
	"sync"
	"time"

	"github.com/yinfei8/jrpc2"
	"github.com/yinfei8/jrpc2/channel"

	"luahelper-lsp/langserver"
	"luahelper-lsp/langserver/check/common"
	"luahelper-lsp/langserver/log"
)

// Pos is an LSP position (UTF-16 units).
type Pos struct {
	Line      int `json:"line"`
	Character int `json:"character"`
}
type Range struct {
	Start Pos `json:"start"`
	End   Pos `json:"end"`
}

func (r Range) String() string {
	return fmt.Sprintf("%d:%d-%d:%d", r.Start.Line, r.Start.Character, r.End.Line, r.End.Character)
}

type Location struct {
	URI   string `json:"uri"`
	Range Range  `json:"range"`
}

// Diag is a normalised diagnostic.
type Diag struct {
	Type     int    `json:"type"`
	Range    Range  `json:"range"`
	Severity int    `json:"severity"`
	Msg      string `json:"msg"`
}

func (d Diag) Key() string { return fmt.Sprintf("%d@%s|%s", d.Type, d.Range, d.Msg) }

type msg struct {
	ID     *json.RawMessage `json:"id,omitempty"`
	Method string           `json:"method,omitempty"`
	Params json.RawMessage  `json:"params,omitempty"`
	Result json.RawMessage  `json:"result,omitempty"`
	Error  *struct {
		Code    int    `json:"code"`
		Message string `json:"message"`
	} `json:"error,omitempty"`
}

// Server is one running LuaHelper instance plus the client's view of it.
type Server struct {
	Root   string
	// AfterHandler (direct mode) runs between a handler's return and the encoding of its result.
	AfterHandler func()
	srv    *jrpc2.Server
	cli    channel.Channel
	nextID int
	mu     sync.Mutex
	cond   *sync.Cond
	inbox  []*msg
	closed bool
	shut   bool
	// responses that arrived while another id was awaited (SendRequest / AwaitRaw)
	stash map[int]*msg
	// Diags is the folded client view: last publishDiagnostics per file
	// (path relative to Root; absolute if outside).
	Diags map[string][]Diag
	// Publishes counts publishDiagnostics notifications received.
	Publishes int
	// Timeout for one answer (a hang verdict is left to the parent watchdog;
	// this only prevents a worker from blocking for ever).
	Timeout time.Duration
	// direct mode: handlers are called as methods on the calling goroutine (see direct.go)
	direct bool
	l      *langserver.LspServer
}

// Options of a start.
type Options struct {
	// InitOptions is sent as initializationOptions; nil = none (server default).
	InitOptions map[string]interface{}
	// NoInitialized skips the `initialized` notification.
	NoInitialized bool
}

// AllChecks returns initialization options with every check flag set.
func AllChecks() map[string]interface{} {
	m := map[string]interface{}{"client": "vsc", "AllEnable": true}
	for _, f := range CheckFlags {
		m[f] = true
	}
	return m
}

// CheckFlags are the 25 per-check switches in positional order (after AllEnable).
var CheckFlags = []string{"CheckSyntax", "CheckNoDefine", "CheckAfterDefine", "CheckLocalNoUse", "CheckTableDuplicateKey",
	"CheckReferNoFile", "CheckAssignParamNum", "CheckLocalDefineParamNum", "CheckGotoLable", "CheckFuncParam",
	"CheckImportModuleVar", "CheckIfNotVar", "CheckFunctionDuplicateParam", "CheckBinaryExpressionDuplicate",
	"CheckErrorOrAlwaysTrue", "CheckErrorAndAlwaysFalse", "CheckNoUseAssign", "CheckAnnotateType", "CheckDuplicateIf",
	"CheckSelfAssign", "CheckFloatEq", "CheckClassField", "CheckConstAssign", "CheckFuncParamType", "CheckFuncReturnType"}

var scratchBase string
var scratchSeq int

// ScratchBase returns this process's private scratch directory.
func ScratchBase() string {
	if scratchBase == "" {
		b := os.Getenv("VERIF_SCRATCH")
		if b == "" {
			b = "/dev/shm"
		}
		scratchBase = filepath.Join(b, fmt.Sprintf("verif-%d", os.Getpid())) // no dot: LuaHelper cuts module paths at the first dot of the whole path
		os.MkdirAll(scratchBase, 0o755)
	}
	return scratchBase
}

// Cleanup removes the scratch directory of this process.
func Cleanup() {
	if scratchBase != "" {
		os.RemoveAll(scratchBase)
	}
}

// NewWorkspace creates a fresh directory holding the given files (relative
// path → content) and returns its absolute path.
func NewWorkspace(files map[string]string) string {
	scratchSeq++
	root := filepath.Join(ScratchBase(), "w"+strconv.Itoa(scratchSeq))
	os.RemoveAll(root)
	os.MkdirAll(root, 0o755)
	WriteFiles(root, files)
	return root
}

func WriteFiles(root string, files map[string]string) {
	var names []string
	for n := range files {
		names = append(names, n)
	}
	sort.Strings(names)
	var links []string
	for _, n := range names {
		if strings.HasPrefix(files[n], SymlinkPrefix) {
			links = append(links, n)
			continue
		}
		p := filepath.Join(root, n)
		os.MkdirAll(filepath.Dir(p), 0o755)
		os.WriteFile(p, []byte(files[n]), 0o644)
	}
	for _, n := range links {
		// "name": "@symlink:<target relative to the root>" creates a symbolic link with an absolute target
		p := filepath.Join(root, n)
		os.MkdirAll(filepath.Dir(p), 0o755)
		os.Symlink(filepath.Join(root, strings.TrimPrefix(files[n], SymlinkPrefix)), p)
	}
}

// SymlinkPrefix marks a workspace entry that is a symbolic link (see WriteFiles).
const SymlinkPrefix = "@symlink:"

func RemoveWorkspace(root string) {
	if strings.HasPrefix(root, ScratchBase()) {
		os.RemoveAll(root)
	}
}

// Start creates a server on root and performs initialize (+ initialized).
func Start(root string, o Options) (*Server, error) {
	log.InitLog(false)
	common.GlobalConfigDefautInit()
	common.GConfig.IntialGlobalVar()
	s := &Server{Root: root, Diags: map[string][]Diag{}, Timeout: 120 * time.Second}
	s.cond = sync.NewCond(&s.mu)
	cli, srv := channel.Direct()
	s.cli = cli
	s.srv = langserver.CreateServer()
	s.srv.Start(srv)
	go s.reader()
	params := map[string]interface{}{
		"processId": 1, "rootPath": root, "rootUri": "file://" + root, "capabilities": map[string]interface{}{},
	}
	if o.InitOptions != nil {
		params["initializationOptions"] = o.InitOptions
	}
	if err := s.Call("initialize", params, nil); err != nil {
		s.Close()
		return nil, err
	}
	if !o.NoInitialized {
		s.Notify("initialized", map[string]interface{}{})
	}
	return s, nil
}

func (s *Server) reader() {
	for {
		b, err := s.cli.Recv()
		if err != nil {
			s.mu.Lock()
			s.closed = true
			s.cond.Broadcast()
			s.mu.Unlock()
			return
		}
		// a batch arrives as a JSON array
		var ms []*msg
		t := strings.TrimSpace(string(b))
		if strings.HasPrefix(t, "[") {
			json.Unmarshal(b, &ms)
		} else {
			var m msg
			if json.Unmarshal(b, &m) == nil {
				ms = []*msg{&m}
			}
		}
		s.mu.Lock()
		s.inbox = append(s.inbox, ms...)
		s.cond.Broadcast()
		s.mu.Unlock()
	}
}

// Close stops the server.
func (s *Server) Close() {
	if s.shut {
		return
	}
	s.shut = true
	s.cli.Close()
	s.srv.Stop()
	done := make(chan struct{})
	go func() { s.srv.Wait(); close(done) }()
	select {
	case <-done:
	case <-time.After(10 * time.Second):
	}
}

func (s *Server) send(v interface{}) error {
	b, err := json.Marshal(v)
	if err != nil {
		return err
	}
	return s.cli.Send(b)
}

var typeRe = regexp.MustCompile(`^\[Warn type:(\d+)\], `)

func (s *Server) rel(uri string) string {
	p := strings.TrimPrefix(uri, "file://")
	if strings.HasPrefix(p, s.Root+"/") {
		return p[len(s.Root)+1:]
	}
	return p
}

// Rel converts a URI/path answered by the server to a workspace-relative path.
func (s *Server) Rel(uri string) string { return s.rel(uri) }

func (s *Server) fold(m *msg) {
	if m.Method != "textDocument/publishDiagnostics" {
		return
	}
	var p struct {
		URI         string `json:"uri"`
		Diagnostics []struct {
			Range    Range  `json:"range"`
			Severity int    `json:"severity"`
			Message  string `json:"message"`
		} `json:"diagnostics"`
	}
	if json.Unmarshal(m.Params, &p) != nil {
		return
	}
	s.Publishes++
	rel := s.rel(p.URI)
	if len(p.Diagnostics) == 0 {
		delete(s.Diags, rel)
		return
	}
	var ds []Diag
	for _, d := range p.Diagnostics {
		t := 0
		msgs := d.Message
		if mm := typeRe.FindStringSubmatch(d.Message); mm != nil {
			t, _ = strconv.Atoi(mm[1])
			msgs = d.Message[len(mm[0]):]
		}
		msgs = strings.ReplaceAll(msgs, s.Root, "$ROOT")
		ds = append(ds, Diag{Type: t, Range: d.Range, Severity: d.Severity, Msg: msgs})
	}
	s.Diags[rel] = ds
}

// wait folds pushes in arrival order until the response with id arrives.
func (s *Server) wait(id int) (*msg, error) {
	deadline := time.Now().Add(s.Timeout)
	s.mu.Lock()
	defer s.mu.Unlock()
	for {
		if m, ok := s.stash[id]; ok {
			delete(s.stash, id)
			return m, nil
		}
		for len(s.inbox) > 0 {
			m := s.inbox[0]
			s.inbox = s.inbox[1:]
			if m.ID != nil && m.Method == "" {
				got, _ := strconv.Atoi(string(*m.ID))
				if got == id {
					return m, nil
				}
				if s.stash != nil {
					s.stash[got] = m
				}
				continue
			}
			s.fold(m)
		}
		if s.closed {
			return nil, fmt.Errorf("connection closed")
		}
		if time.Now().After(deadline) {
			return nil, fmt.Errorf("timeout waiting for response %d", id)
		}
		// timed wait
		t := time.AfterFunc(time.Second, func() { s.mu.Lock(); s.cond.Broadcast(); s.mu.Unlock() })
		s.cond.Wait()
		t.Stop()
	}
}

// RPCError is an error response.
type RPCError struct {
	Code    int
	Message string
}

func (e *RPCError) Error() string { return fmt.Sprintf("rpc error %d: %s", e.Code, e.Message) }

// Call sends a request and decodes the result.
func (s *Server) Call(method string, params interface{}, result interface{}) error {
	if s.direct {
		return s.directCall(method, params, result)
	}
	s.nextID++
	id := s.nextID
	if err := s.send(map[string]interface{}{"jsonrpc": "2.0", "id": id, "method": method, "params": params}); err != nil {
		return err
	}
	m, err := s.wait(id)
	if err != nil {
		return err
	}
	if m.Error != nil {
		return &RPCError{m.Error.Code, m.Error.Message}
	}
	if result != nil && len(m.Result) > 0 {
		return json.Unmarshal(m.Result, result)
	}
	return nil
}

// SendRequest sends a request without waiting for its answer (several requests in flight); AwaitRaw collects it.
func (s *Server) SendRequest(method string, params interface{}) (int, error) {
	s.mu.Lock()
	if s.stash == nil {
		s.stash = map[int]*msg{}
	}
	s.mu.Unlock()
	s.nextID++
	id := s.nextID
	return id, s.send(map[string]interface{}{"jsonrpc": "2.0", "id": id, "method": method, "params": params})
}

// AwaitRaw waits for the answer of a request sent with SendRequest.
func (s *Server) AwaitRaw(id int) (json.RawMessage, error) {
	m, err := s.wait(id)
	if err != nil {
		return nil, err
	}
	if m.Error != nil {
		return nil, &RPCError{m.Error.Code, m.Error.Message}
	}
	return m.Result, nil
}

// CallRaw returns the raw result JSON.
func (s *Server) CallRaw(method string, params interface{}) (json.RawMessage, error) {
	var raw json.RawMessage
	err := s.Call(method, params, &raw)
	return raw, err
}

// NotifyAsync sends a notification without waiting for its handler.
func (s *Server) NotifyAsync(method string, params interface{}) error {
	if s.direct {
		return s.directCall(method, params, nil)
	}
	return s.send(map[string]interface{}{"jsonrpc": "2.0", "method": method, "params": params})
}

// Barrier returns when every notification sent before it has been handled
// and all its pushes have been folded: an unknown-method request is
// dispatched only after the notification barrier and has no handler.
func (s *Server) Barrier() error {
	if s.direct {
		s.directFold()
		return nil
	}
	err := s.Call("verif/barrier", map[string]interface{}{}, nil)
	if e, ok := err.(*RPCError); ok && e.Code == -32601 {
		return nil
	}
	return err
}

// Notify sends a notification and waits until it has been handled.
func (s *Server) Notify(method string, params interface{}) error {
	if err := s.NotifyAsync(method, params); err != nil {
		return err
	}
	return s.Barrier()
}

// ---------------------------------------------------------------- LSP helpers

func (s *Server) URI(rel string) string {
	if strings.HasPrefix(rel, "/") {
		return "file://" + rel
	}
	return "file://" + s.Root + "/" + rel
}

func (s *Server) Open(rel, text string) error {
	return s.Notify("textDocument/didOpen", map[string]interface{}{"textDocument": map[string]interface{}{
		"uri": s.URI(rel), "languageId": "lua", "version": 1, "text": text}})
}

func (s *Server) ChangeFull(rel, text string) error {
	return s.Notify("textDocument/didChange", map[string]interface{}{
		"textDocument":   map[string]interface{}{"uri": s.URI(rel), "version": 2},
		"contentChanges": []interface{}{map[string]interface{}{"text": text}}})
}

// Edit is one incremental content change.
type Edit struct {
	Range Range  `json:"range"`
	Text  string `json:"text"`
}

func (s *Server) ChangeInc(rel string, edits []Edit) error {
	var cc []interface{}
	for _, e := range edits {
		r := e.Range
		cc = append(cc, map[string]interface{}{"range": &r, "text": e.Text})
	}
	return s.Notify("textDocument/didChange", map[string]interface{}{
		"textDocument": map[string]interface{}{"uri": s.URI(rel), "version": 2}, "contentChanges": cc})
}

// Change is one entry of a didChange batch: a range edit, or (Range == nil) a full-text replacement.
type Change struct {
	Range *Range
	Text  string
}

// ChangeBatch sends one didChange whose entries may mix full replacements and range edits.
func (s *Server) ChangeBatch(rel string, changes []Change) error {
	var cc []interface{}
	for _, c := range changes {
		if c.Range == nil {
			cc = append(cc, map[string]interface{}{"text": c.Text})
		} else {
			r := *c.Range
			cc = append(cc, map[string]interface{}{"range": &r, "text": c.Text})
		}
	}
	return s.Notify("textDocument/didChange", map[string]interface{}{
		"textDocument": map[string]interface{}{"uri": s.URI(rel), "version": 2}, "contentChanges": cc})
}

func (s *Server) Save(rel, text string) error {
	return s.Notify("textDocument/didSave", map[string]interface{}{
		"textDocument": map[string]interface{}{"uri": s.URI(rel)}, "text": text})
}

func (s *Server) CloseDoc(rel string) error {
	return s.Notify("textDocument/didClose", map[string]interface{}{"textDocument": map[string]interface{}{"uri": s.URI(rel)}})
}

// FileEvent types: 1 created, 2 changed, 3 deleted.
type FileEvent struct {
	Rel  string
	Type int
}

func (s *Server) Watched(evs []FileEvent) error {
	var ch []interface{}
	for _, e := range evs {
		ch = append(ch, map[string]interface{}{"uri": s.URI(e.Rel), "type": e.Type})
	}
	return s.Notify("workspace/didChangeWatchedFiles", map[string]interface{}{"changes": ch})
}

func (s *Server) posParams(rel string, line, ch int) map[string]interface{} {
	return map[string]interface{}{"textDocument": map[string]interface{}{"uri": s.URI(rel)},
		"position": map[string]interface{}{"line": line, "character": ch}}
}

func (s *Server) Definition(rel string, line, ch int) ([]Location, error) {
	var locs []Location
	err := s.Call("textDocument/definition", s.posParams(rel, line, ch), &locs)
	return locs, err
}

func (s *Server) References(rel string, line, ch int) ([]Location, error) {
	p := s.posParams(rel, line, ch)
	p["context"] = map[string]interface{}{"includeDeclaration": true}
	var locs []Location
	err := s.Call("textDocument/references", p, &locs)
	return locs, err
}

type Highlight struct {
	Range Range `json:"range"`
	Kind  int   `json:"kind"`
}

func (s *Server) Highlight(rel string, line, ch int) ([]Highlight, error) {
	var hs []Highlight
	err := s.Call("textDocument/documentHighlight", s.posParams(rel, line, ch), &hs)
	return hs, err
}

// Hover returns contents.value ("" when there is no hover).
func (s *Server) Hover(rel string, line, ch int) (string, error) {
	raw, err := s.CallRaw("textDocument/hover", s.posParams(rel, line, ch))
	if err != nil {
		return "", err
	}
	var h struct {
		Contents struct {
			Kind  string `json:"kind"`
			Value string `json:"value"`
		} `json:"contents"`
	}
	if len(raw) == 0 || string(raw) == "null" {
		return "", nil
	}
	json.Unmarshal(raw, &h)
	return h.Contents.Value, nil
}

type TextEdit struct {
	Range   Range  `json:"range"`
	NewText string `json:"newText"`
}

// Rename returns file (relative) → edits.
func (s *Server) Rename(rel string, line, ch int, newName string) (map[string][]TextEdit, error) {
	p := s.posParams(rel, line, ch)
	p["newName"] = newName
	var we struct {
		Changes map[string][]TextEdit `json:"changes"`
	}
	raw, err := s.CallRaw("textDocument/rename", p)
	if err != nil {
		return nil, err
	}
	if len(raw) > 0 && string(raw) != "null" {
		json.Unmarshal(raw, &we)
	}
	out := map[string][]TextEdit{}
	for u, e := range we.Changes {
		out[s.rel(u)] = e
	}
	return out, nil
}

type CompletionItem struct {
	Label string `json:"label"`
	Kind  int    `json:"kind"`
}

func (s *Server) Completion(rel string, line, ch int, trigger string) ([]CompletionItem, error) {
	p := s.posParams(rel, line, ch)
	if trigger != "" {
		p["context"] = map[string]interface{}{"triggerKind": 2, "triggerCharacter": trigger}
	} else {
		p["context"] = map[string]interface{}{"triggerKind": 1}
	}
	raw, err := s.CallRaw("textDocument/completion", p)
	if err != nil {
		return nil, err
	}
	var cl struct {
		Items []CompletionItem `json:"items"`
	}
	if len(raw) > 0 && string(raw) != "null" {
		if raw[0] == '[' {
			json.Unmarshal(raw, &cl.Items)
		} else {
			json.Unmarshal(raw, &cl)
		}
	}
	return cl.Items, nil
}

type DocSymbol struct {
	Name           string      `json:"name"`
	Kind           int         `json:"kind"`
	Range          Range       `json:"range"`
	SelectionRange Range       `json:"selectionRange"`
	Children       []DocSymbol `json:"children"`
}

func (s *Server) DocSymbols(rel string) ([]DocSymbol, error) {
	var ds []DocSymbol
	err := s.Call("textDocument/documentSymbol", map[string]interface{}{"textDocument": map[string]interface{}{"uri": s.URI(rel)}}, &ds)
	return ds, err
}

type SymbolInfo struct {
	Name          string   `json:"name"`
	Kind          int      `json:"kind"`
	Location      Location `json:"location"`
	ContainerName string   `json:"containerName"`
}

func (s *Server) WsSymbols(query string) ([]SymbolInfo, error) {
	var ss []SymbolInfo
	err := s.Call("workspace/symbol", map[string]interface{}{"query": query}, &ss)
	return ss, err
}

// DiagView returns a canonical string of the folded diagnostics view.
func (s *Server) DiagView() string {
	var files []string
	for f := range s.Diags {
		files = append(files, f)
	}
	sort.Strings(files)
	var sb strings.Builder
	for _, f := range files {
		var ks []string
		for _, d := range s.Diags[f] {
			ks = append(ks, d.Key())
		}
		sort.Strings(ks)
		sb.WriteString(f + ": " + strings.Join(ks, " ; ") + "\n")
	}
	return sb.String()
}
