package drv

import (
	"testing"
	"time"
)

func TestSmoke(t *testing.T) {
	defer Cleanup()
	root := NewWorkspace(map[string]string{"a.lua": "local x = 1\nprint(y)\nlocal a = a + 1\n", "b.lua": "function g() end\n x = = 1"})
	t0 := time.Now()
	s, err := Start(root, Options{InitOptions: AllChecks()})
	if err != nil {
		t.Fatal(err)
	}
	t.Log("start", time.Since(t0))
	t.Log("\n" + s.DiagView())
	s.Open("a.lua", "local x = 1\nprint(y)\nlocal a = a + 1\n")
	locs, err := s.Definition("a.lua", 2, 10)
	t.Log(locs, err)
	h, err := s.Hover("a.lua", 0, 6)
	t.Log(h, err)
	items, _ := s.Completion("a.lua", 1, 1, "")
	t.Log(len(items))
	ds, err := s.DocSymbols("a.lua")
	t.Log(ds, err)
	s.Close()
	t0 = time.Now()
	for i := 0; i < 200; i++ {
		s, _ := Start(root, Options{InitOptions: AllChecks()})
		s.Open("a.lua", "local x = 1\nprint(y)\n")
		s.Definition("a.lua", 1, 7)
		s.Close()
	}
	t.Log("200 cycles", time.Since(t0))
}
