// Package core is the shared exhaustive-enumeration framework: a check is a
// list of finite, ranked case spaces; the parent process shards index ranges
// over worker processes, attributes crashes and hangs to single cases, folds
// the counters, classifies failures against known_findings.json and writes
// the evidence file.
package core

import (
	"crypto/sha256"
	"encoding/hex"
	"encoding/json"
	"sort"
)

// Failure is one case on which the oracle disagreed with the implementation.
type Failure struct {
	Space  string      `json:"space"`
	Index  int64       `json:"index"`
	Sig    string      `json:"signature"`
	Hash   string      `json:"hash"`
	Detail interface{} `json:"detail,omitempty"`
}

// Result is what a worker reports for one chunk; the parent adds them up.
type Result struct {
	Evaluated   int64            `json:"ev"`
	Nontrivial  int64            `json:"nt"`
	States      int64            `json:"st"`
	Transitions int64            `json:"tr"`
	Validated   int64            `json:"va"`
	Counters    map[string]int64 `json:"ct,omitempty"`
	Outcomes    map[string]int64 `json:"oc,omitempty"`
	Failures    []Failure        `json:"fl,omitempty"`
	Samples     []interface{}    `json:"sm,omitempty"`
}

func (r *Result) Count(k string, n int64) {
	if r.Counters == nil {
		r.Counters = map[string]int64{}
	}
	r.Counters[k] += n
}

// Outcome tallies a (small-domain) observed outcome; the number of distinct
// outcomes is reported so that vacuous exploration is visible.
func (r *Result) Outcome(k string) {
	if r.Outcomes == nil {
		r.Outcomes = map[string]int64{}
	}
	if len(r.Outcomes) < 4096 || r.Outcomes[k] > 0 {
		r.Outcomes[k]++
	}
}

func (r *Result) Fail(space string, idx int64, sig string, caseContent string, detail interface{}) {
	r.Failures = append(r.Failures, Failure{Space: space, Index: idx, Sig: sig, Hash: HashCase(sig, caseContent), Detail: detail})
}

func (r *Result) Sample(v interface{}) {
	if len(r.Samples) < 3 {
		r.Samples = append(r.Samples, v)
	}
}

func (r *Result) Merge(o *Result) {
	r.Evaluated += o.Evaluated
	r.Nontrivial += o.Nontrivial
	r.States += o.States
	r.Transitions += o.Transitions
	r.Validated += o.Validated
	for k, v := range o.Counters {
		r.Count(k, v)
	}
	for k, v := range o.Outcomes {
		if r.Outcomes == nil {
			r.Outcomes = map[string]int64{}
		}
		r.Outcomes[k] += v
	}
	r.Failures = append(r.Failures, o.Failures...)
	for _, s := range o.Samples {
		if len(r.Samples) < 8 {
			r.Samples = append(r.Samples, s)
		}
	}
}

// HashCase identifies a failing case by its content (not by its index), so
// that the quick and thorough tiers and re-ordered enumerations agree.
func HashCase(sig, content string) string {
	h := sha256.Sum256([]byte(sig + "\x00" + content))
	return hex.EncodeToString(h[:8])
}

// Space is one finite, ranked family of cases.
type Space struct {
	Name  string
	N     int64
	Chunk int64 // cases per work unit
	// Run executes case i on the real code and judges it.
	Run func(i int64, r *Result)
	// Describe materialises case i for samples and replay files.
	Describe func(i int64) interface{}
	// Setup runs once per worker before the first case of this space.
	Setup func()
	// PerCaseTimeoutS is the budget of a case when re-run alone (hang verdict).
	PerCaseTimeoutS int
	// ChunkTimeoutS is the watchdog of a whole chunk (never a verdict).
	ChunkTimeoutS int
	// RecycleEvery makes the parent replace the worker after that many chunks.
	RecycleEvery int
	// Serial spaces run in one worker only (shared global resources).
	Serial bool
}

// Check is one property's machinery.
type Check struct {
	ID          string
	Technique   string
	Rule        string
	Assumptions []string
	Flavour     string // build flavour: prod | inst-pass | inst-ctl
	Spaces      func(tier string) []*Space
	// Post runs in the parent after all spaces (e.g. vacuity checks); it may
	// add failures and counters.
	Post func(tier string, total *Result)
	// BudgetS per tier (0 = default).
	QuickBudgetS, ThoroughBudgetS int
}

var registry = map[string]*Check{}

func Register(c *Check) { registry[c.ID] = c }
func Lookup(id string) *Check {
	return registry[id]
}
func IDs() []string {
	var ids []string
	for k := range registry {
		ids = append(ids, k)
	}
	sort.Strings(ids)
	return ids
}

func jsonStr(v interface{}) string {
	b, _ := json.Marshal(v)
	return string(b)
}
