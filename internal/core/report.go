package core

import (
	"encoding/json"
	"fmt"
	"os"
	"path/filepath"
	"sort"
	"strconv"
	"strings"
	"time"
)

// VerifDir is the framework directory (the parent of the directory holding the running binary).
var VerifDir = func() string {
	if exe, err := os.Executable(); err == nil {
		d := filepath.Dir(filepath.Dir(exe))
		if _, err := os.Stat(filepath.Join(d, "properties.jsonl")); err == nil {
			return d
		}
	}
	return "/verif"
}()

// KnownFinding identifies a recorded genuine defect: the classifier signature
// plus the frozen set of witness hashes (concrete failing cases).
// RepoDir is the repository under verification (VERIF_REPO overrides /repo: used to run the checks
// against a scratch worktree carrying a seeded change).
func RepoDir() string {
	if r := os.Getenv("VERIF_REPO"); r != "" {
		return r
	}
	return "/repo"
}

// OutDir is where evidence and replay files are written (VERIF_OUT overrides the framework directory).
func OutDir() string {
	if r := os.Getenv("VERIF_OUT"); r != "" {
		return r
	}
	return VerifDir
}

type KnownFinding struct {
	Property  string   `json:"property"`
	Signature string   `json:"signature"`
	What      string   `json:"what"`
	Witnesses []string `json:"witnesses"`
}

type FixedEntry struct {
	Property string `json:"property"`
	Commit   string `json:"commit"`
	What     string `json:"what"`
}

type KnownFile struct {
	Comment  string         `json:"comment,omitempty"`
	Findings []KnownFinding `json:"findings"`
	Fixed    []FixedEntry   `json:"fixed"`
}

func LoadKnown() *KnownFile {
	var k KnownFile
	b, err := os.ReadFile(filepath.Join(VerifDir, "known_findings.json"))
	if err != nil {
		return &k
	}
	if err := json.Unmarshal(b, &k); err != nil {
		fmt.Fprintf(os.Stderr, "known_findings.json unreadable: %v\n", err)
	}
	// witness lists may live in side files known/<property>.<n>.txt
	for i := range k.Findings {
		f := &k.Findings[i]
		if len(f.Witnesses) == 1 && strings.HasPrefix(f.Witnesses[0], "@") {
			b, err := os.ReadFile(filepath.Join(VerifDir, f.Witnesses[0][1:]))
			if err == nil {
				f.Witnesses = strings.Fields(string(b))
			}
		}
	}
	return &k
}

type Evidence struct {
	PropertyID  string                 `json:"property_id"`
	Tier        string                 `json:"tier"`
	Seed        int64                  `json:"seed"`
	Level       string                 `json:"level"`
	Coverage    map[string]interface{} `json:"coverage"`
	Assumptions []string               `json:"assumptions"`
	WallS       float64                `json:"wall_s"`
	Violations  int                    `json:"violations"`
}

// Main runs one check and reports per the interface contract; returns the
// process exit code.
func Main(id, tier string) int {
	c := Lookup(id)
	if c == nil {
		fmt.Fprintf(os.Stderr, "unknown check %s (have %v)\n", id, IDs())
		return 2
	}
	seed := int64(0)
	if v := os.Getenv("VERIF_SEED"); v != "" {
		seed, _ = strconv.ParseInt(v, 10, 64)
	}
	t0 := time.Now()
	total, exhaustive, skipped, notes, spaces := Explore(c, tier, seed)
	if c.Post != nil {
		c.Post(tier, total)
	}
	known := LoadKnown()
	type kf struct {
		f    *KnownFinding
		set  map[string]bool
		seen int
	}
	kmap := map[string]*kf{}
	for i := range known.Findings {
		f := &known.Findings[i]
		if f.Property != id {
			continue
		}
		e := &kf{f: f, set: map[string]bool{}}
		for _, w := range f.Witnesses {
			e.set[w] = true
		}
		kmap[f.Signature] = e
	}
	// classify
	sort.Slice(total.Failures, func(i, j int) bool {
		a, b := total.Failures[i], total.Failures[j]
		if a.Space != b.Space {
			return a.Space < b.Space
		}
		return a.Index < b.Index
	})
	var viol []Failure
	seenHash := map[string]bool{}
	sigCount := map[string]int{}
	for _, f := range total.Failures {
		sigCount[f.Sig]++
		if e, ok := kmap[f.Sig]; ok && e.set[f.Hash] {
			e.seen++
			continue
		}
		if seenHash[f.Hash] {
			continue
		}
		seenHash[f.Hash] = true
		viol = append(viol, f)
	}
	var sigs []string
	for s := range kmap {
		sigs = append(sigs, s)
	}
	sort.Strings(sigs)
	for _, s := range sigs {
		e := kmap[s]
		if e.seen > 0 {
			fmt.Printf("KNOWN-FINDING: property=%s %s -- %s (%d witnessed cases)\n", id, s, e.f.What, e.seen)
		}
	}
	os.RemoveAll(filepath.Join(OutDir(), "replays", id))
	// replay artefacts for violations (first of each signature, at most 25 files)
	written := 0
	perSig := map[string]int{}
	spaceIdx := map[string]int{}
	for i, sp := range spaces {
		spaceIdx[sp.Name] = i
	}
	bySig := map[string][]Failure{}
	for _, f := range viol {
		perSig[f.Sig]++
		bySig[f.Sig] = append(bySig[f.Sig], f)
	}
	var sigOrder []string
	for s := range bySig {
		sigOrder = append(sigOrder, s)
	}
	sort.Slice(sigOrder, func(i, j int) bool {
		if len(bySig[sigOrder[i]]) != len(bySig[sigOrder[j]]) {
			return len(bySig[sigOrder[i]]) < len(bySig[sigOrder[j]])
		}
		return sigOrder[i] < sigOrder[j]
	})
	for pass := 0; pass < 2; pass++ {
		for _, sg := range sigOrder {
			if pass >= len(bySig[sg]) || written >= 60 {
				continue
			}
			f := bySig[sg][pass]
			dir := filepath.Join(OutDir(), "replays", id)
			os.MkdirAll(dir, 0o755)
			path := filepath.Join(dir, f.Hash+".json")
			var desc interface{}
			if si, ok := spaceIdx[f.Space]; ok && spaces[si].Describe != nil {
				desc = spaces[si].Describe(f.Index)
			}
			rep := map[string]interface{}{
				"property": id, "tier": tier, "space": f.Space, "index": f.Index,
				"signature": f.Sig, "hash": f.Hash, "case": desc, "detail": f.Detail,
				"replay": fmt.Sprintf("/verif/bin/vcheck replay %s", path),
			}
			b, _ := json.MarshalIndent(rep, "", " ")
			os.WriteFile(path, b, 0o644)
			fmt.Printf("VIOLATION property=%s replay=%s\n", id, path)
			fmt.Printf("  signature: %s\n", f.Sig)
			written++
		}
	}
	if len(viol) > written {
		fmt.Printf("  (%d further violating cases; signature counts below)\n", len(viol)-written)
	}
	if len(viol) > 0 {
		var ss []string
		for s, n := range perSig {
			ss = append(ss, fmt.Sprintf("%6d  %s", n, s))
		}
		sort.Strings(ss)
		for _, s := range ss {
			fmt.Println("  " + s)
		}
	}
	for _, n := range notes {
		fmt.Println("note: " + n)
	}
	// evidence
	cov := map[string]interface{}{
		"evaluations":                   total.Evaluated,
		"distinct_nontrivial":           total.Nontrivial,
		"rule":                          c.Rule,
		"states":                        total.States,
		"transitions":                   total.Transitions,
		"traces_validated_against_impl": total.Validated,
		"exhaustive":                    exhaustive,
		"samples":                       total.Samples,
		"distinct_outcomes":             len(total.Outcomes),
		"build_flavour":                 c.Flavour,
		"technique":                     c.Technique,
		"workers":                       workers(),
	}
	for k, v := range total.Counters {
		if strings.Contains(k, "capped_before_bound_completed") && v > 0 {
			// an execution cap was hit inside some case: the stated bound was not completed there
			cov["exhaustive"] = false
			cov["exhaustive_note"] = "every case ran, but " + k + " = " + fmt.Sprint(v) + ": those explorations stopped at their execution cap (see counters for the ones completed to the bound)"
		}
	}
	for k, v := range total.Counters {
		if strings.HasPrefix(k, "harness_errors") && v > 0 {
			// the machinery itself failed somewhere (not the property): what it did not decide is not claimed
			cov["exhaustive"] = false
			cov["exhaustive_note"] = fmt.Sprint(cov["exhaustive_note"], " ", k, " = ", v, ": those cases were not decided")
			fmt.Printf("note: %s = %d (machinery error; the affected cases are not decided and the run is not reported as exhaustive)\n", k, v)
		}
	}
	if len(total.Samples) == 0 {
		cov["samples"] = []interface{}{"(no case was run)"}
	}
	if !exhaustive {
		cov["cases_not_run_budget_expired"] = skipped
	}
	var spl []map[string]interface{}
	for _, sp := range spaces {
		spl = append(spl, map[string]interface{}{"space": sp.Name, "cases": sp.N})
	}
	cov["spaces"] = spl
	if len(total.Counters) > 0 {
		cov["counters"] = total.Counters
	}
	if len(total.Outcomes) > 0 && len(total.Outcomes) <= 64 {
		cov["outcome_tally"] = total.Outcomes
	}
	if len(sigCount) > 0 {
		cov["failing_signature_counts"] = sigCount
	}
	if len(notes) > 0 {
		cov["notes"] = notes
	}
	ev := Evidence{PropertyID: id, Tier: tier, Seed: seed, Level: "model_checking", Coverage: cov,
		Assumptions: c.Assumptions, WallS: time.Since(t0).Seconds(), Violations: len(viol)}
	if ev.Assumptions == nil {
		ev.Assumptions = []string{}
	}
	b, _ := json.MarshalIndent(&ev, "", " ")
	os.MkdirAll(filepath.Join(OutDir(), "evidence"), 0o755)
	os.WriteFile(filepath.Join(OutDir(), "evidence", id+".json"), b, 0o644)
	fmt.Printf("%s %s: cases=%d nontrivial=%d states=%d transitions=%d validated=%d outcomes=%d exhaustive=%v failures=%d violations=%d wall=%.1fs\n",
		id, tier, total.Evaluated, total.Nontrivial, total.States, total.Transitions, total.Validated, len(total.Outcomes), exhaustive, len(total.Failures), len(viol), time.Since(t0).Seconds())
	if len(viol) > 0 {
		return 1
	}
	return 0
}

// Replay re-executes the case of a replay file in this process.
func Replay(path string) int {
	b, err := os.ReadFile(path)
	if err != nil {
		fmt.Fprintln(os.Stderr, err)
		return 2
	}
	var rep struct {
		Property string `json:"property"`
		Tier     string `json:"tier"`
		Space    string `json:"space"`
		Index    int64  `json:"index"`
	}
	if err := json.Unmarshal(b, &rep); err != nil {
		fmt.Fprintln(os.Stderr, err)
		return 2
	}
	c := Lookup(rep.Property)
	if c == nil {
		fmt.Fprintln(os.Stderr, "unknown property", rep.Property)
		return 2
	}
	for _, sp := range c.Spaces(rep.Tier) {
		if sp.Name != rep.Space {
			continue
		}
		if sp.Setup != nil {
			sp.Setup()
		}
		var r Result
		sp.Run(rep.Index, &r)
		if sp.Describe != nil {
			fmt.Println("case:", jsonStr(sp.Describe(rep.Index)))
		}
		for _, f := range r.Failures {
			fmt.Printf("FAIL %s hash=%s detail=%s\n", f.Sig, f.Hash, jsonStr(f.Detail))
		}
		if len(r.Failures) > 0 {
			fmt.Printf("VIOLATION property=%s replay=%s\n", rep.Property, path)
			return 1
		}
		fmt.Println("case passes on the current tree")
		return 0
	}
	fmt.Fprintln(os.Stderr, "space not found:", rep.Space)
	return 2
}

// Freeze prints the witness hashes of the failures of a run grouped by
// signature (used by the maintainer of known_findings.json, never by checks).
func Freeze(id, tier string) int {
	c := Lookup(id)
	if c == nil {
		return 2
	}
	total, _, _, _, _ := Explore(c, tier, 0)
	if c.Post != nil {
		c.Post(tier, total)
	}
	by := map[string]map[string]bool{}
	for _, f := range total.Failures {
		if by[f.Sig] == nil {
			by[f.Sig] = map[string]bool{}
		}
		by[f.Sig][f.Hash] = true
	}
	out := map[string][]string{}
	for s, m := range by {
		for h := range m {
			out[s] = append(out[s], h)
		}
		sort.Strings(out[s])
	}
	b, _ := json.MarshalIndent(out, "", " ")
	fmt.Println(string(b))
	return 0
}
