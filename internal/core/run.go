package core

import (
	"bufio"
	"bytes"
	"encoding/json"
	"fmt"
	"io"
	"os"
	"os/exec"
	"regexp"
	"runtime"
	"strconv"
	"strings"
	"sync"
	"time"
)

// ---------------------------------------------------------------- worker side

// WorkerMain is the body of `vcheck worker <ID> <tier>`: it reads RUN lines
// from stdin and writes J (journal) and R (result) lines to fd 3.
func WorkerMain(id, tier string) {
	c := Lookup(id)
	if c == nil {
		fmt.Fprintf(os.Stderr, "unknown check %s\n", id)
		os.Exit(2)
	}
	spaces := c.Spaces(tier)
	out := os.NewFile(3, "result")
	w := bufio.NewWriterSize(out, 1<<16)
	in := bufio.NewReaderSize(os.Stdin, 1<<12)
	setupDone := map[int]bool{}
	for {
		line, err := in.ReadString('\n')
		if err != nil {
			return
		}
		f := strings.Fields(line)
		if len(f) == 0 {
			continue
		}
		if f[0] == "QUIT" {
			return
		}
		if f[0] != "RUN" || len(f) != 5 {
			fmt.Fprintf(os.Stderr, "bad command %q\n", line)
			os.Exit(2)
		}
		si, _ := strconv.Atoi(f[1])
		lo, _ := strconv.ParseInt(f[2], 10, 64)
		hi, _ := strconv.ParseInt(f[3], 10, 64)
		step := f[4] == "1"
		sp := spaces[si]
		if !setupDone[si] {
			if sp.Setup != nil {
				sp.Setup()
			}
			setupDone[si] = true
		}
		if step {
			for i := lo; i < hi; i++ {
				fmt.Fprintf(w, "J %d\n", i)
				w.Flush()
				var r Result
				sp.Run(i, &r)
				b, _ := json.Marshal(&r)
				w.WriteString("R ")
				w.Write(b)
				w.WriteString("\n")
				w.Flush()
			}
			w.WriteString("E\n")
			w.Flush()
		} else {
			var r Result
			for i := lo; i < hi; i++ {
				sp.Run(i, &r)
			}
			b, _ := json.Marshal(&r)
			w.WriteString("R ")
			w.Write(b)
			w.WriteString("\nE\n")
			w.Flush()
		}
	}
}

// ---------------------------------------------------------------- parent side

type capBuf struct {
	mu  sync.Mutex
	buf bytes.Buffer
	cap int
}

func (c *capBuf) Write(p []byte) (int, error) {
	c.mu.Lock()
	defer c.mu.Unlock()
	if c.buf.Len() < c.cap {
		n := c.cap - c.buf.Len()
		if n > len(p) {
			n = len(p)
		}
		c.buf.Write(p[:n])
	}
	return len(p), nil
}
func (c *capBuf) String() string {
	c.mu.Lock()
	defer c.mu.Unlock()
	return c.buf.String()
}

type worker struct {
	cmd    *exec.Cmd
	stdin  io.WriteCloser
	lines  chan string // lines from fd 3; closed on EOF
	stderr *capBuf
	chunks int
}

func startWorker(exe, id, tier string) (*worker, error) {
	cmd := exec.Command(exe, "worker", id, tier)
	stdin, err := cmd.StdinPipe()
	if err != nil {
		return nil, err
	}
	pr, pw, err := os.Pipe()
	if err != nil {
		return nil, err
	}
	cmd.ExtraFiles = []*os.File{pw}
	eb := &capBuf{cap: 1 << 18}
	cmd.Stderr = eb
	cmd.Stdout = io.Discard
	cmd.Env = append(os.Environ(), "VERIF_WORKER=1", "GOTRACEBACK=all")
	if err := cmd.Start(); err != nil {
		return nil, err
	}
	pw.Close()
	w := &worker{cmd: cmd, stdin: stdin, lines: make(chan string, 64), stderr: eb}
	go func() {
		sc := bufio.NewScanner(pr)
		sc.Buffer(make([]byte, 1<<20), 1<<28)
		for sc.Scan() {
			w.lines <- sc.Text()
		}
		pr.Close()
		close(w.lines)
	}()
	return w, nil
}

func (w *worker) kill() {
	if w == nil || w.cmd == nil {
		return
	}
	w.stdin.Close()
	w.cmd.Process.Kill()
	w.cmd.Wait()
	for range w.lines {
	}
	w.sweep()
}

// sweep removes the scratch directory of a worker that could not clean up after itself (killed, crashed).
func (w *worker) sweep() {
	if w.cmd != nil && w.cmd.Process != nil {
		b := os.Getenv("VERIF_SCRATCH")
		if b == "" {
			b = "/dev/shm"
		}
		os.RemoveAll(fmt.Sprintf("%s/verif-%d", b, w.cmd.Process.Pid))
	}
}

func (w *worker) quit() {
	if w == nil {
		return
	}
	io.WriteString(w.stdin, "QUIT\n")
	w.stdin.Close()
	done := make(chan struct{})
	go func() { w.cmd.Wait(); close(done) }()
	select {
	case <-done:
	case <-time.After(5 * time.Second):
		w.cmd.Process.Kill()
		<-done
	}
	for range w.lines {
	}
	w.sweep()
}

type chunk struct {
	space  int
	lo, hi int64
}

type runner struct {
	exe     string
	check   *Check
	tier    string
	spaces  []*Space
	mu      sync.Mutex
	total   Result
	queue   []chunk
	qpos    int
	dead    time.Time
	skipped int64 // cases not run because the budget expired
	notes   []string
	// confirmed crashes/hangs per space: once a space has maxAbnormal of them the rest of it is skipped (the property is
	// already violated there; pinning hundreds of hanging cases one by one would take hours)
	abnormal map[int]int
}

const maxAbnormal = 5

func (r *runner) saturated(space int) bool {
	r.mu.Lock()
	defer r.mu.Unlock()
	return r.abnormal[space] >= maxAbnormal
}

func (r *runner) skipRest(space int, n int64) {
	r.mu.Lock()
	r.skipped += n
	r.mu.Unlock()
	r.note(fmt.Sprintf("space %s: %d crashes/hangs confirmed, %d further cases of it not run", r.spaces[space].Name, maxAbnormal, n))
}

func (r *runner) next(serialOnly bool) (chunk, bool) {
	r.mu.Lock()
	defer r.mu.Unlock()
	if r.qpos >= len(r.queue) {
		return chunk{}, false
	}
	if time.Now().After(r.dead) {
		for _, c := range r.queue[r.qpos:] {
			r.skipped += c.hi - c.lo
		}
		r.qpos = len(r.queue)
		return chunk{}, false
	}
	c := r.queue[r.qpos]
	r.qpos++
	return c, true
}

func (r *runner) merge(res *Result) {
	r.mu.Lock()
	r.total.Merge(res)
	r.mu.Unlock()
}

func (r *runner) note(s string) {
	r.mu.Lock()
	r.notes = append(r.notes, s)
	r.mu.Unlock()
}

var frameRe = regexp.MustCompile(`(?m)^(luahelper-lsp/[^\s(]+(?:\([^)]*\))?[^\s(]*)\(.*\n\t/\S*?luahelper-lsp/([^\s:]+\.go):(\d+)`)

// crashSignature reduces a Go crash dump to {kind, first repository frame}.
func crashSignature(stderr string) (sig string, excerpt string) {
	kind := "exit"
	for _, l := range strings.Split(stderr, "\n") {
		if strings.HasPrefix(l, "fatal error: ") {
			kind = strings.TrimPrefix(l, "fatal error: ")
			break
		}
		if strings.HasPrefix(l, "panic: ") {
			kind = "panic"
			p := strings.TrimPrefix(l, "panic: ")
			if strings.Contains(p, "index out of range") {
				kind = "panic:index out of range"
			} else if strings.Contains(p, "nil pointer") {
				kind = "panic:nil pointer"
			} else if strings.Contains(p, "slice bounds") {
				kind = "panic:slice bounds"
			} else if strings.Contains(p, "interface conversion") {
				kind = "panic:interface conversion"
			} else if strings.Contains(p, "regexp") {
				kind = "panic:regexp"
			}
			break
		}
	}
	frame := "?"
	for _, m := range frameRe.FindAllStringSubmatch(stderr, -1) {
		if !strings.Contains(m[1], "/vrt.") && !strings.Contains(m[2], "/vrt/") {
			frame = m[1]
			break
		}
	}
	ex := stderr
	if len(ex) > 3000 {
		ex = ex[:3000]
	}
	return "crash:" + kind + "@" + frame, ex
}

// runChunk returns true if the chunk completed in the worker.
func (r *runner) runChunk(w *worker, c chunk, step bool, onJournal func(int64), perCase time.Duration, whole time.Duration) (ok bool, timedOut bool) {
	s := "0"
	if step {
		s = "1"
	}
	if _, err := fmt.Fprintf(w.stdin, "RUN %d %d %d %s\n", c.space, c.lo, c.hi, s); err != nil {
		return false, false
	}
	var timer *time.Timer
	d := whole
	if step {
		d = perCase
	}
	timer = time.NewTimer(d)
	defer timer.Stop()
	for {
		select {
		case line, okc := <-w.lines:
			if !okc {
				return false, false
			}
			switch {
			case strings.HasPrefix(line, "J "):
				i, _ := strconv.ParseInt(line[2:], 10, 64)
				if onJournal != nil {
					onJournal(i)
				}
				if !timer.Stop() {
					select {
					case <-timer.C:
					default:
					}
				}
				timer.Reset(d)
			case strings.HasPrefix(line, "R "):
				var res Result
				if err := json.Unmarshal([]byte(line[2:]), &res); err != nil {
					r.note("bad result line: " + err.Error())
					return false, false
				}
				r.merge(&res)
			case line == "E":
				return true, false
			}
		case <-timer.C:
			return false, true
		}
	}
}

// triage pins a crash or hang inside [lo,hi) to single cases.
func (r *runner) triage(c chunk) {
	sp := r.spaces[c.space]
	perCase := time.Duration(sp.PerCaseTimeoutS) * time.Second
	if perCase == 0 {
		perCase = 60 * time.Second
	}
	pos := c.lo
	for pos < c.hi {
		if r.saturated(c.space) {
			r.skipRest(c.space, c.hi-pos)
			return
		}
		w, err := startWorker(r.exe, r.check.ID, r.tier)
		if err != nil {
			r.note("cannot start worker: " + err.Error())
			return
		}
		cur := int64(-1)
		ok, timedOut := r.runChunk(w, chunk{c.space, pos, c.hi}, true, func(i int64) { cur = i }, perCase, 0)
		if ok {
			w.quit()
			return
		}
		w.kill()
		if cur < 0 {
			r.note(fmt.Sprintf("worker died before first case of %s[%d,%d): %s", sp.Name, pos, c.hi, firstLines(w.stderr.String(), 5)))
			return
		}
		// confirm: the case alone, three more fresh processes
		same := 0
		var lastErr string
		var lastTimed bool
		for k := 0; k < 3; k++ {
			w2, err := startWorker(r.exe, r.check.ID, r.tier)
			if err != nil {
				break
			}
			// do not merge results of confirmation runs
			sub := &runner{exe: r.exe, check: r.check, tier: r.tier, spaces: r.spaces}
			ok2, to2 := sub.runChunk(w2, chunk{c.space, cur, cur + 1}, true, nil, perCase, 0)
			if ok2 {
				w2.quit()
			} else {
				w2.kill()
				same++
				lastErr = w2.stderr.String()
				lastTimed = to2
			}
		}
		var desc interface{}
		if sp.Describe != nil {
			desc = sp.Describe(cur)
		}
		if same == 3 {
			var res Result
			if lastTimed || timedOut && lastErr == "" {
				res.Fail(sp.Name, cur, "hang:no answer within "+perCase.String(), jsonStr(desc), map[string]interface{}{"case": desc})
			} else {
				sig, ex := crashSignature(lastErr)
				res.Fail(sp.Name, cur, sig, jsonStr(desc), map[string]interface{}{"case": desc, "stderr": ex})
			}
			res.Evaluated = 1
			r.merge(&res)
			r.mu.Lock()
			if r.abnormal == nil {
				r.abnormal = map[int]int{}
			}
			r.abnormal[c.space]++
			r.mu.Unlock()
		} else {
			r.note(fmt.Sprintf("unconfirmed abnormal exit at %s[%d] (reproduced %d/3): not reported", sp.Name, cur, same))
			var res Result
			res.Count("unconfirmed_abnormal_exits", 1)
			r.merge(&res)
		}
		pos = cur + 1
	}
}

func firstLines(s string, n int) string {
	l := strings.SplitN(s, "\n", n+1)
	if len(l) > n {
		l = l[:n]
	}
	return strings.Join(l, " | ")
}

func workers() int {
	n := runtime.NumCPU()
	if n > 16 {
		n = 16
	}
	if v := os.Getenv("VERIF_WORKERS"); v != "" {
		if k, err := strconv.Atoi(v); err == nil && k > 0 {
			n = k
		}
	}
	return n
}

// Explore runs all spaces of a check over worker processes.
func Explore(c *Check, tier string, seed int64) (total *Result, exhaustive bool, skipped int64, notes []string, spaces []*Space) {
	exe, _ := os.Executable()
	r := &runner{exe: exe, check: c, tier: tier}
	r.spaces = c.Spaces(tier)
	budget := c.QuickBudgetS
	if tier == "thorough" {
		budget = c.ThoroughBudgetS
	}
	if budget == 0 {
		if tier == "thorough" {
			budget = 1500
		} else {
			budget = 240
		}
	}
	if v := os.Getenv("VERIF_BUDGET_S"); v != "" {
		if k, err := strconv.Atoi(v); err == nil && k > 0 {
			budget = k
		}
	}
	r.dead = time.Now().Add(time.Duration(budget) * time.Second)
	var serialQ []chunk
	only := os.Getenv("VERIF_ONLY_SPACE") // maintainer aid: run the spaces whose name contains this text (never exhaustive)
	for si, sp := range r.spaces {
		if only != "" && !strings.Contains(sp.Name, only) {
			r.skipped += sp.N
			continue
		}
		ch := sp.Chunk
		if ch <= 0 {
			ch = 1000
		}
		for lo := int64(0); lo < sp.N; lo += ch {
			hi := lo + ch
			if hi > sp.N {
				hi = sp.N
			}
			if sp.Serial {
				serialQ = append(serialQ, chunk{si, lo, hi})
			} else {
				r.queue = append(r.queue, chunk{si, lo, hi})
			}
		}
	}
	// VERIF_SEED only permutes the order in which chunks are explored.
	if seed != 0 && len(r.queue) > 1 {
		x := uint64(seed)*2862933555777941757 + 3037000493
		for i := len(r.queue) - 1; i > 0; i-- {
			x ^= x << 13
			x ^= x >> 7
			x ^= x << 17
			j := int(x % uint64(i+1))
			r.queue[i], r.queue[j] = r.queue[j], r.queue[i]
		}
	}
	r.queue = append(serialQ, r.queue...)
	var wg sync.WaitGroup
	nw := workers()
	for k := 0; k < nw; k++ {
		wg.Add(1)
		go func(k int) {
			defer wg.Done()
			var w *worker
			defer func() { w.quit() }()
			for {
				ch, ok := r.next(false)
				if !ok {
					return
				}
				sp := r.spaces[ch.space]
				if r.saturated(ch.space) {
					r.skipRest(ch.space, ch.hi-ch.lo)
					continue
				}
				if w != nil && sp.RecycleEvery > 0 && w.chunks >= sp.RecycleEvery {
					w.quit()
					w = nil
				}
				if w == nil {
					var err error
					w, err = startWorker(r.exe, c.ID, tier)
					if err != nil {
						r.note("cannot start worker: " + err.Error())
						return
					}
				}
				whole := time.Duration(sp.ChunkTimeoutS) * time.Second
				if whole == 0 {
					whole = 300 * time.Second
				}
				okc, _ := r.runChunk(w, ch, false, nil, 0, whole)
				w.chunks++
				if !okc {
					w.kill()
					w = nil
					r.triage(ch)
				}
			}
		}(k)
	}
	wg.Wait()
	return &r.total, r.skipped == 0, r.skipped, r.notes, r.spaces
}
