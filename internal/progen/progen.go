// Package progen enumerates, with ranking, every small Lua program ("scope
// skeleton") over a statement alphabet: index <-> program, simplest first.
package progen

import (
	"fmt"
	"strings"
)

// Head is a compound statement form with one or two bodies.
type Head struct {
	Open  string // e.g. "while a do"
	Mid   string // "else" for two-body forms
	Close string // "end" or "until a"
}

// Alphabet is a concrete statement alphabet (names and expressions already
// substituted).
type Alphabet struct {
	Simple  []string // one-node statements that may appear anywhere
	Last    []string // one-node statements only valid at the end of a block (return ...)
	Heads1  []Head   // compound, one body
	Heads2  []Head   // compound, two bodies
	MaxDepth int
	// memo
	blockMemo map[[2]int]int64
	statMemo  map[[2]int]int64
	seqMemo   map[[2]int]int64
}

// Names used in templates.
var Names = []string{"a", "b"}

// Expand substitutes %N (each name) and %E (each expression) in templates.
// Several %N / %E in one template are expanded independently (full product).
func Expand(tmpls []string, names, exprs []string) []string {
	var out []string
	var rec func(s string)
	rec = func(s string) {
		in := strings.Index(s, "%N")
		ie := strings.Index(s, "%E")
		switch {
		case in < 0 && ie < 0:
			out = append(out, s)
		case in >= 0 && (ie < 0 || in < ie):
			for _, n := range names {
				rec(s[:in] + n + s[in+2:])
			}
		default:
			for _, e := range exprs {
				rec(s[:ie] + e + s[ie+2:])
			}
		}
	}
	for _, t := range tmpls {
		rec(t)
	}
	return out
}

// ExpandHeads does the same for heads given as "open|mid|close".
func ExpandHeads(tmpls []string, names, exprs []string) []Head {
	var hs []Head
	for _, s := range Expand(tmpls, names, exprs) {
		p := strings.Split(s, "|")
		hs = append(hs, Head{p[0], p[1], p[2]})
	}
	return hs
}

func (a *Alphabet) init() {
	if a.blockMemo == nil {
		a.blockMemo = map[[2]int]int64{}
		a.statMemo = map[[2]int]int64{}
		a.seqMemo = map[[2]int]int64{}
	}
}

// stat(n,d): statements with exactly n nodes and nesting depth <= d.
func (a *Alphabet) stat(n, d int) int64 {
	a.init()
	if n <= 0 {
		return 0
	}
	k := [2]int{n, d}
	if v, ok := a.statMemo[k]; ok {
		return v
	}
	var c int64
	if n == 1 {
		c += int64(len(a.Simple))
	}
	if d >= 1 {
		c += int64(len(a.Heads1)) * a.block(n-1, d-1)
		var two int64
		for i := 0; i <= n-1; i++ {
			two += a.block(i, d-1) * a.block(n-1-i, d-1)
		}
		c += int64(len(a.Heads2)) * two
	}
	a.statMemo[k] = c
	return c
}

// seq(n,d): sequences of ordinary statements with exactly n nodes.
func (a *Alphabet) seq(n, d int) int64 {
	a.init()
	if n == 0 {
		return 1
	}
	k := [2]int{n, d}
	if v, ok := a.seqMemo[k]; ok {
		return v
	}
	var c int64
	for f := 1; f <= n; f++ {
		c += a.stat(f, d) * a.seq(n-f, d)
	}
	a.seqMemo[k] = c
	return c
}

// block(n,d): blocks with exactly n nodes: a sequence, optionally ended by a Last statement.
func (a *Alphabet) block(n, d int) int64 {
	a.init()
	if n < 0 {
		return 0
	}
	k := [2]int{n, d}
	if v, ok := a.blockMemo[k]; ok {
		return v
	}
	c := a.seq(n, d)
	if n >= 1 {
		c += a.seq(n-1, d) * int64(len(a.Last))
	}
	a.blockMemo[k] = c
	return c
}

// Count is the number of programs with 1..maxNodes nodes.
func (a *Alphabet) Count(maxNodes int) int64 {
	var c int64
	for n := 1; n <= maxNodes; n++ {
		c += a.block(n, a.MaxDepth)
	}
	return c
}

// CountExact is the number of programs with exactly n nodes.
func (a *Alphabet) CountExact(n int) int64 { return a.block(n, a.MaxDepth) }

// Program returns the idx-th program (ordered by node count, then rank) as lines.
func (a *Alphabet) Program(idx int64) []string {
	n := 1
	for {
		c := a.block(n, a.MaxDepth)
		if idx < c {
			break
		}
		idx -= c
		n++
		if n > 64 {
			panic("progen: index out of range")
		}
	}
	var lines []string
	a.buildBlock(n, a.MaxDepth, idx, "", &lines)
	return lines
}

func (a *Alphabet) buildBlock(n, d int, idx int64, ind string, out *[]string) {
	s := a.seq(n, d)
	if idx < s {
		a.buildSeq(n, d, idx, ind, out)
		return
	}
	idx -= s
	nl := int64(len(a.Last))
	a.buildSeq(n-1, d, idx/nl, ind, out)
	*out = append(*out, ind+a.Last[idx%nl])
}

func (a *Alphabet) buildSeq(n, d int, idx int64, ind string, out *[]string) {
	if n == 0 {
		return
	}
	for f := 1; f <= n; f++ {
		c := a.stat(f, d) * a.seq(n-f, d)
		if idx < c {
			rest := a.seq(n-f, d)
			a.buildStat(f, d, idx/rest, ind, out)
			a.buildSeq(n-f, d, idx%rest, ind, out)
			return
		}
		idx -= c
	}
	panic("progen: bad seq index")
}

func (a *Alphabet) buildStat(n, d int, idx int64, ind string, out *[]string) {
	if n == 1 {
		if idx < int64(len(a.Simple)) {
			*out = append(*out, ind+a.Simple[idx])
			return
		}
		idx -= int64(len(a.Simple))
	}
	b1 := a.block(n-1, d-1)
	c1 := int64(len(a.Heads1)) * b1
	if idx < c1 {
		h := a.Heads1[idx/b1]
		*out = append(*out, ind+h.Open)
		a.buildBlock(n-1, d-1, idx%b1, ind+"  ", out)
		*out = append(*out, ind+h.Close)
		return
	}
	idx -= c1
	var two int64
	for i := 0; i <= n-1; i++ {
		two += a.block(i, d-1) * a.block(n-1-i, d-1)
	}
	h := a.Heads2[idx/two]
	idx %= two
	for i := 0; i <= n-1; i++ {
		c := a.block(i, d-1) * a.block(n-1-i, d-1)
		if idx < c {
			r := a.block(n-1-i, d-1)
			*out = append(*out, ind+h.Open)
			a.buildBlockOrEmpty(i, d-1, idx/r, ind+"  ", out)
			*out = append(*out, ind+h.Mid)
			a.buildBlockOrEmpty(n-1-i, d-1, idx%r, ind+"  ", out)
			*out = append(*out, ind+h.Close)
			return
		}
		idx -= c
	}
	panic("progen: bad stat index")
}

func (a *Alphabet) buildBlockOrEmpty(n, d int, idx int64, ind string, out *[]string) {
	if n == 0 {
		return
	}
	a.buildBlock(n, d, idx, ind, out)
}

// Describe summarises an alphabet for evidence files.
func (a *Alphabet) Describe() string {
	return fmt.Sprintf("%d simple + %d block-final statements, %d one-body + %d two-body compound forms, depth<=%d",
		len(a.Simple), len(a.Last), len(a.Heads1), len(a.Heads2), a.MaxDepth)
}
