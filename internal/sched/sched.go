// Package sched is the stateless schedule explorer: iterative context bounding over the choice
// points of the controlled runtime (vrt).  An execution is identified by its choice list; explore
// replays a prefix, continues with default choices, and branches on every later alternative whose
// preemption cost stays within the bound.
package sched

import (
	"fmt"
	"runtime"
	"time"

	"luahelper-lsp/langserver/vrt"
)

// Point is one recorded choice point of an execution.
type Point struct {
	N          int  // number of alternatives
	CurEnabled bool // the thread that ran last could have continued
	Chosen     int
}

// Exec is one completed execution.
type Exec struct {
	Choices []int
	Points  []Point
	Res     *vrt.Result
	Obs     string
	Err     string // harness problem (divergence, timeout)
	Stacks  string // goroutine dump on a timeout
	From    int    // first point of the explored phase
}

type chooser struct {
	prefix   []int
	points   []Point
	diverged string
	from     int // alternatives are explored only at points with index >= from (BeginExplore)
}

var active *chooser

// BeginExplore is called by a scenario body when its sequential set-up is over: only the scheduling points
// reached afterwards are branched on (the set-up always runs under the default schedule).
func BeginExplore() {
	if active != nil {
		active.from = len(active.points)
	}
}

func (c *chooser) Choose(step, cur int, en []vrt.Alt) int {
	k := 0
	if step < len(c.prefix) {
		k = c.prefix[step]
		if k >= len(en) {
			if c.diverged == "" {
				c.diverged = fmt.Sprintf("replay diverged at step %d: choice %d of %d alternatives", step, k, len(en))
			}
			k = 0
		}
	}
	c.points = append(c.points, Point{N: len(en), CurEnabled: cur >= 0 && en[0].Thread == cur, Chosen: k})
	return k
}

// Scenario is a closed system: Body runs on the main managed thread and returns the observables.
type Scenario struct {
	Name string
	Body func() string
	// Options of the controlled runtime
	YieldAtMethods bool
}

// RunOnce executes the scenario under the given choice prefix (defaults afterwards).
func RunOnce(sc *Scenario, prefix []int, timeout time.Duration) *Exec {
	ch := &chooser{prefix: prefix}
	active = ch
	ex := &Exec{}
	done := make(chan struct{})
	var obs string
	go func() {
		ex.Res = vrt.Run(func() { obs = sc.Body() }, ch, vrt.Options{YieldAtMethods: sc.YieldAtMethods})
		close(done)
	}()
	select {
	case <-done:
	case <-time.After(timeout):
		ex.Err = "execution did not finish (a thread blocked outside the scheduler?)"
		ex.Res = &vrt.Result{}
		buf := make([]byte, 1<<20)
		n := runtime.Stack(buf, true)
		ex.Stacks = string(buf[:n])
	}
	ex.Obs = obs
	ex.From = ch.from
	ex.Points = ch.points
	for _, p := range ch.points {
		ex.Choices = append(ex.Choices, p.Chosen)
	}
	if ch.diverged != "" {
		ex.Err = ch.diverged
	}
	return ex
}

// Stats of an exploration.
type Stats struct {
	Executions   int64
	ChoicePoints int64 // points with more than one alternative, summed over executions
	MaxSteps     int
	Bound        int
	Capped       bool
	// NonDeterministic: two runs of the default schedule differed (harness problem, exploration not started)
	NonDeterministic bool
}

// Explore enumerates every execution with at most bound deviations from the default schedule (depth first, default-first), calling
// visit for each; visit returns false to stop.  maxExec caps the number of executions (Capped is then set).
func Explore(sc *Scenario, bound int, maxExec int64, deadline time.Time, visit func(*Exec) bool) Stats {
	st := Stats{Bound: bound}
	// determinism self-check: the default schedule replayed twice must give identical observations and
	// identical choice points; otherwise some source of nondeterminism is not owned and no verdict is believed
	a, b := RunOnce(sc, nil, 60*time.Second), RunOnce(sc, nil, 60*time.Second)
	if a.Err == "" && b.Err == "" && (a.Obs != b.Obs || len(a.Points) != len(b.Points)) {
		st.NonDeterministic = true
		return st
	}
	var rec func(prefix []int) bool
	rec = func(prefix []int) bool {
		if st.Executions >= maxExec || time.Now().After(deadline) {
			st.Capped = true
			return false
		}
		ex := RunOnce(sc, prefix, 60*time.Second)
		st.Executions++
		if len(ex.Points) > st.MaxSteps {
			st.MaxSteps = len(ex.Points)
		}
		for _, p := range ex.Points {
			if p.N > 1 {
				st.ChoicePoints++
			}
		}
		if !visit(ex) {
			return false
		}
		if ex.Err != "" {
			return true
		}
		// deviations used before each point: every non-default choice counts, whether it preempts a runnable
		// thread or picks another thread than the lowest-numbered one when the running thread blocks
		used := 0
		for i, p := range ex.Points {
			if i >= len(prefix) && i >= ex.From && p.N > 1 && used+1 <= bound {
				for alt := 1; alt < p.N; alt++ {
					np := append(append([]int{}, ex.Choices[:i]...), alt)
					if !rec(np) {
						return false
					}
				}
			}
			if p.Chosen != 0 {
				used++
			}
		}
		return true
	}
	rec(nil)
	return st
}
