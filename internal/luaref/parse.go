package luaref

import "fmt"

// ---------------------------------------------------------------- AST

type Expr interface{ exprNode() }
type Stat interface{ statNode() }

type Span struct{ Start, End int }

type NameRef struct {
	Span
	Name string
}

type (
	NilExpr    struct{ Span }
	TrueExpr   struct{ Span }
	FalseExpr  struct{ Span }
	VarargExpr struct{ Span }
	NumberExpr struct {
		Span
		Raw string
	}
	StringExpr struct {
		Span
		Raw, Val string
		Long     bool
	}
	NameExpr struct {
		NameRef
	}
	IndexExpr struct {
		Span
		Obj Expr
		Key Expr // StringExpr with IsField for ".name"
		Dot bool // obj.name form
	}
	CallExpr struct {
		Span
		Fn      Expr
		Method  *NameRef // obj:method(...)
		Args    []Expr
		ArgForm string // "paren" | "table" | "string"
	}
	ParenExpr struct {
		Span
		E Expr
	}
	FuncExpr struct {
		Span
		Params   []NameRef
		IsVararg bool
		Body     *Block
		HasSelf  bool // defined with ':' — implicit first parameter self
		EndTok   Span // the closing 'end'
	}
	TableField struct {
		Key     Expr // nil for positional; StringExpr for name= ; any for [exp]=
		NameKey *NameRef
		Val     Expr
	}
	TableExpr struct {
		Span
		Fields []TableField
	}
	BinExpr struct {
		Span
		Op   string
		L, R Expr
	}
	UnExpr struct {
		Span
		Op string
		E  Expr
	}
)

func (*NilExpr) exprNode()    {}
func (*TrueExpr) exprNode()   {}
func (*FalseExpr) exprNode()  {}
func (*VarargExpr) exprNode() {}
func (*NumberExpr) exprNode() {}
func (*StringExpr) exprNode() {}
func (*NameExpr) exprNode()   {}
func (*IndexExpr) exprNode()  {}
func (*CallExpr) exprNode()   {}
func (*ParenExpr) exprNode()  {}
func (*FuncExpr) exprNode()   {}
func (*TableExpr) exprNode()  {}
func (*BinExpr) exprNode()    {}
func (*UnExpr) exprNode()     {}

type Block struct {
	Span
	Stats []Stat
}

type (
	LocalStat struct {
		Span
		Names   []NameRef
		Attribs []string
		Exprs   []Expr
	}
	AssignStat struct {
		Span
		Targets []Expr
		Exprs   []Expr
	}
	CallStat struct {
		Span
		Call *CallExpr
	}
	DoStat struct {
		Span
		Body *Block
	}
	WhileStat struct {
		Span
		Cond Expr
		Body *Block
	}
	RepeatStat struct {
		Span
		Body *Block
		Cond Expr
	}
	IfStat struct {
		Span
		Conds  []Expr
		Blocks []*Block
		Else   *Block
	}
	NumForStat struct {
		Span
		Var               NameRef
		Init, Limit, Step Expr
		Body              *Block
	}
	GenForStat struct {
		Span
		Names []NameRef
		Exprs []Expr
		Body  *Block
	}
	FuncStat struct {
		Span
		Path   []NameRef // a.b.c
		Method *NameRef  // :m
		Func   *FuncExpr
	}
	LocalFuncStat struct {
		Span
		Name NameRef
		Func *FuncExpr
	}
	ReturnStat struct {
		Span
		Exprs []Expr
	}
	BreakStat struct{ Span }
	GotoStat  struct {
		Span
		Label string
	}
	LabelStat struct {
		Span
		Label string
	}
	EmptyStat struct{ Span }
)

func (*LocalStat) statNode()     {}
func (*AssignStat) statNode()    {}
func (*CallStat) statNode()      {}
func (*DoStat) statNode()        {}
func (*WhileStat) statNode()     {}
func (*RepeatStat) statNode()    {}
func (*IfStat) statNode()        {}
func (*NumForStat) statNode()    {}
func (*GenForStat) statNode()    {}
func (*FuncStat) statNode()      {}
func (*LocalFuncStat) statNode() {}
func (*ReturnStat) statNode()    {}
func (*BreakStat) statNode()     {}
func (*GotoStat) statNode()      {}
func (*LabelStat) statNode()     {}
func (*EmptyStat) statNode()     {}

// ---------------------------------------------------------------- parser

type ParseResult struct {
	Lex      *LexResult
	Chunk    *Block
	Err      error
	DontCare []string // context-sensitive rules (break outside loop, ...) + lexical ones
}

// Valid reports whether src is a syntactically valid chunk.
func (r *ParseResult) Valid() bool { return r.Err == nil }

type parser struct {
	toks []Token
	p    int
	err  error
	care []string
	// context for the compile-time rules that the grammar does not express
	loopDepth int
	varargOK  bool
	src       string
}

type parseError struct{ msg string }

func (p *parser) fail(f string, a ...interface{}) {
	panic(parseError{fmt.Sprintf("offset %d: ", p.cur().Start) + fmt.Sprintf(f, a...)})
}

func (p *parser) cur() Token  { return p.toks[p.p] }
func (p *parser) peek() Token { return p.toks[min(p.p+1, len(p.toks)-1)] }
func (p *parser) next() Token { t := p.toks[p.p]; p.p++; return t }
func (p *parser) isOp(s string) bool {
	t := p.cur()
	return t.Kind == Op && t.Text == s
}
func (p *parser) isKw(s string) bool {
	t := p.cur()
	return t.Kind == Keyword && t.Text == s
}
func (p *parser) expectOp(s string) Token {
	if !p.isOp(s) {
		p.fail("%q expected near %q", s, p.cur().Text)
	}
	return p.next()
}
func (p *parser) expectKw(s string) Token {
	if !p.isKw(s) {
		p.fail("%q expected near %q", s, p.cur().Text)
	}
	return p.next()
}
func (p *parser) expectName() NameRef {
	t := p.cur()
	if t.Kind != Name {
		p.fail("<name> expected near %q", t.Text)
	}
	p.p++
	return NameRef{Span{t.Start, t.End}, t.Text}
}
func (p *parser) dontCare(r string) {
	for _, x := range p.care {
		if x == r {
			return
		}
	}
	p.care = append(p.care, r)
}

// Parse parses src as a chunk.
func Parse(src string) (res *ParseResult) {
	lx := Lex(src)
	res = &ParseResult{Lex: lx}
	res.DontCare = append(res.DontCare, lx.DontCare...)
	if lx.Err != nil {
		res.Err = lx.Err
		return
	}
	p := &parser{toks: lx.Tokens, varargOK: true, src: src}
	defer func() {
		if r := recover(); r != nil {
			if pe, ok := r.(parseError); ok {
				res.Err = fmt.Errorf("%s", pe.msg)
				res.DontCare = append(res.DontCare, p.care...)
				return
			}
			panic(r)
		}
	}()
	res.Chunk = p.block()
	if p.cur().Kind != EOF {
		p.fail("<eof> expected near %q", p.cur().Text)
	}
	res.DontCare = append(res.DontCare, p.care...)
	return
}

func (p *parser) blockEnd() bool {
	t := p.cur()
	if t.Kind == EOF {
		return true
	}
	if t.Kind == Keyword {
		switch t.Text {
		case "end", "else", "elseif", "until":
			return true
		}
	}
	return false
}

func (p *parser) block() *Block {
	b := &Block{}
	b.Start = p.cur().Start
	for !p.blockEnd() {
		if p.isKw("return") {
			b.Stats = append(b.Stats, p.retstat())
			break
		}
		b.Stats = append(b.Stats, p.stat())
	}
	b.End = p.cur().Start
	if p.p > 0 {
		b.End = p.toks[p.p-1].End
		if b.End < b.Start {
			b.End = b.Start
		}
	}
	return b
}

func (p *parser) retstat() Stat {
	t := p.expectKw("return")
	r := &ReturnStat{}
	r.Start = t.Start
	if !p.blockEnd() && !p.isOp(";") {
		r.Exprs = p.explist()
	}
	if p.isOp(";") {
		p.next()
	}
	r.End = p.toks[p.p-1].End
	return r
}

func (p *parser) stat() Stat {
	t := p.cur()
	if t.Kind == Op {
		switch t.Text {
		case ";":
			p.next()
			return &EmptyStat{Span{t.Start, t.End}}
		case "::":
			p.next()
			n := p.expectName()
			e := p.expectOp("::")
			return &LabelStat{Span{t.Start, e.End}, n.Name}
		}
	}
	if t.Kind == Keyword {
		switch t.Text {
		case "break":
			p.next()
			if p.loopDepth == 0 {
				p.dontCare("break outside a loop")
			}
			return &BreakStat{Span{t.Start, t.End}}
		case "goto":
			p.next()
			n := p.expectName()
			p.dontCare("goto (label visibility is a compile-time rule)")
			return &GotoStat{Span{t.Start, n.End}, n.Name}
		case "do":
			p.next()
			b := p.block()
			e := p.expectKw("end")
			return &DoStat{Span{t.Start, e.End}, b}
		case "while":
			p.next()
			c := p.expr()
			p.expectKw("do")
			p.loopDepth++
			b := p.block()
			p.loopDepth--
			e := p.expectKw("end")
			return &WhileStat{Span{t.Start, e.End}, c, b}
		case "repeat":
			p.next()
			p.loopDepth++
			b := p.block()
			p.loopDepth--
			p.expectKw("until")
			c := p.expr()
			return &RepeatStat{Span{t.Start, p.toks[p.p-1].End}, b, c}
		case "if":
			p.next()
			s := &IfStat{}
			s.Start = t.Start
			s.Conds = append(s.Conds, p.expr())
			p.expectKw("then")
			s.Blocks = append(s.Blocks, p.block())
			for p.isKw("elseif") {
				p.next()
				s.Conds = append(s.Conds, p.expr())
				p.expectKw("then")
				s.Blocks = append(s.Blocks, p.block())
			}
			if p.isKw("else") {
				p.next()
				s.Else = p.block()
			}
			e := p.expectKw("end")
			s.End = e.End
			return s
		case "for":
			p.next()
			n1 := p.expectName()
			if p.isOp("=") {
				p.next()
				s := &NumForStat{Var: n1}
				s.Start = t.Start
				s.Init = p.expr()
				p.expectOp(",")
				s.Limit = p.expr()
				if p.isOp(",") {
					p.next()
					s.Step = p.expr()
				}
				p.expectKw("do")
				p.loopDepth++
				s.Body = p.block()
				p.loopDepth--
				s.End = p.expectKw("end").End
				return s
			}
			s := &GenForStat{Names: []NameRef{n1}}
			s.Start = t.Start
			for p.isOp(",") {
				p.next()
				s.Names = append(s.Names, p.expectName())
			}
			if !p.isKw("in") {
				p.fail("'=' or 'in' expected near %q", p.cur().Text)
			}
			p.next()
			s.Exprs = p.explist()
			p.expectKw("do")
			p.loopDepth++
			s.Body = p.block()
			p.loopDepth--
			s.End = p.expectKw("end").End
			return s
		case "function":
			p.next()
			s := &FuncStat{}
			s.Start = t.Start
			s.Path = append(s.Path, p.expectName())
			for p.isOp(".") {
				p.next()
				s.Path = append(s.Path, p.expectName())
			}
			if p.isOp(":") {
				p.next()
				m := p.expectName()
				s.Method = &m
			}
			s.Func = p.funcbody(t.Start, s.Method != nil)
			s.End = s.Func.End
			return s
		case "local":
			p.next()
			if p.isKw("function") {
				p.next()
				n := p.expectName()
				f := p.funcbody(t.Start, false)
				return &LocalFuncStat{Span{t.Start, f.End}, n, f}
			}
			s := &LocalStat{}
			s.Start = t.Start
			nclose := 0
			for {
				s.Names = append(s.Names, p.expectName())
				at := ""
				if p.isOp("<") {
					p.next()
					a := p.expectName()
					p.expectOp(">")
					at = a.Name
					if at != "const" && at != "close" {
						p.dontCare("unknown attribute name")
					}
					if at == "close" {
						nclose++
					}
				}
				s.Attribs = append(s.Attribs, at)
				if !p.isOp(",") {
					break
				}
				p.next()
			}
			if nclose > 1 {
				p.dontCare("multiple to-be-closed variables in one local list")
			}
			if p.isOp("=") {
				p.next()
				s.Exprs = p.explist()
			}
			s.End = p.toks[p.p-1].End
			return s
		}
	}
	// exprstat: functioncall | varlist '=' explist
	e := p.suffixedexp()
	if p.isOp("=") || p.isOp(",") {
		s := &AssignStat{}
		s.Start = t.Start
		s.Targets = append(s.Targets, p.checkVar(e))
		for p.isOp(",") {
			p.next()
			s.Targets = append(s.Targets, p.checkVar(p.suffixedexp()))
		}
		p.expectOp("=")
		s.Exprs = p.explist()
		s.End = p.toks[p.p-1].End
		return s
	}
	c, ok := e.(*CallExpr)
	if !ok {
		p.fail("syntax error near %q", p.cur().Text)
	}
	return &CallStat{Span{t.Start, p.toks[p.p-1].End}, c}
}

func (p *parser) checkVar(e Expr) Expr {
	switch e.(type) {
	case *NameExpr, *IndexExpr:
		return e
	}
	p.fail("syntax error: cannot assign to this expression")
	return nil
}

func (p *parser) funcbody(start int, hasSelf bool) *FuncExpr {
	f := &FuncExpr{HasSelf: hasSelf}
	f.Start = start
	p.expectOp("(")
	if !p.isOp(")") {
		for {
			if p.isOp("...") {
				p.next()
				f.IsVararg = true
				break
			}
			f.Params = append(f.Params, p.expectName())
			if !p.isOp(",") {
				break
			}
			p.next()
		}
	}
	p.expectOp(")")
	saveLoop, saveVA := p.loopDepth, p.varargOK
	p.loopDepth, p.varargOK = 0, f.IsVararg
	f.Body = p.block()
	p.loopDepth, p.varargOK = saveLoop, saveVA
	e := p.expectKw("end")
	f.EndTok = Span{e.Start, e.End}
	f.End = e.End
	return f
}

func (p *parser) explist() []Expr {
	es := []Expr{p.expr()}
	for p.isOp(",") {
		p.next()
		es = append(es, p.expr())
	}
	return es
}

func (p *parser) primaryexp() Expr {
	t := p.cur()
	if t.Kind == Name {
		p.next()
		return &NameExpr{NameRef{Span{t.Start, t.End}, t.Text}}
	}
	if p.isOp("(") {
		p.next()
		e := p.expr()
		c := p.expectOp(")")
		return &ParenExpr{Span{t.Start, c.End}, e}
	}
	p.fail("unexpected symbol near %q", t.Text)
	return nil
}

func exprStart(e Expr) int {
	switch x := e.(type) {
	case *NameExpr:
		return x.Start
	case *IndexExpr:
		return x.Start
	case *CallExpr:
		return x.Start
	case *ParenExpr:
		return x.Start
	}
	return 0
}

func (p *parser) suffixedexp() Expr {
	e := p.primaryexp()
	st := exprStart(e)
	for {
		t := p.cur()
		switch {
		case p.isOp("."):
			p.next()
			n := p.expectName()
			e = &IndexExpr{Span{st, n.End}, e, &StringExpr{Span: n.Span, Raw: n.Name, Val: n.Name}, true}
		case p.isOp("["):
			p.next()
			k := p.expr()
			c := p.expectOp("]")
			e = &IndexExpr{Span{st, c.End}, e, k, false}
		case p.isOp(":"):
			p.next()
			n := p.expectName()
			args, form := p.args()
			e = &CallExpr{Span{st, p.toks[p.p-1].End}, e, &n, args, form}
		case p.isOp("(") || p.isOp("{") || t.Kind == String:
			args, form := p.args()
			e = &CallExpr{Span{st, p.toks[p.p-1].End}, e, nil, args, form}
		default:
			return e
		}
	}
}

func (p *parser) args() ([]Expr, string) {
	t := p.cur()
	if t.Kind == String {
		p.next()
		return []Expr{&StringExpr{Span{t.Start, t.End}, t.Text, t.Val, t.Long}}, "string"
	}
	if p.isOp("{") {
		return []Expr{p.table()}, "table"
	}
	if p.isOp("(") {
		p.next()
		var es []Expr
		if !p.isOp(")") {
			es = p.explist()
		}
		p.expectOp(")")
		return es, "paren"
	}
	p.fail("function arguments expected near %q", t.Text)
	return nil, ""
}

func (p *parser) table() *TableExpr {
	o := p.expectOp("{")
	t := &TableExpr{}
	t.Start = o.Start
	for !p.isOp("}") {
		var f TableField
		if p.cur().Kind == Name && p.peek().Kind == Op && p.peek().Text == "=" {
			n := p.expectName()
			p.next()
			f.NameKey = &n
			f.Key = &StringExpr{Span: n.Span, Raw: n.Name, Val: n.Name}
			f.Val = p.expr()
		} else if p.isOp("[") {
			p.next()
			f.Key = p.expr()
			p.expectOp("]")
			p.expectOp("=")
			f.Val = p.expr()
		} else {
			f.Val = p.expr()
		}
		t.Fields = append(t.Fields, f)
		if p.isOp(",") || p.isOp(";") {
			p.next()
		} else {
			break
		}
	}
	c := p.expectOp("}")
	t.End = c.End
	return t
}

func (p *parser) simpleexp() Expr {
	t := p.cur()
	switch t.Kind {
	case Number:
		p.next()
		return &NumberExpr{Span{t.Start, t.End}, t.Text}
	case String:
		p.next()
		return &StringExpr{Span{t.Start, t.End}, t.Text, t.Val, t.Long}
	case Keyword:
		switch t.Text {
		case "nil":
			p.next()
			return &NilExpr{Span{t.Start, t.End}}
		case "true":
			p.next()
			return &TrueExpr{Span{t.Start, t.End}}
		case "false":
			p.next()
			return &FalseExpr{Span{t.Start, t.End}}
		case "function":
			p.next()
			return p.funcbody(t.Start, false)
		}
	case Op:
		if t.Text == "..." {
			p.next()
			if !p.varargOK {
				p.dontCare("'...' outside a vararg function")
			}
			return &VarargExpr{Span{t.Start, t.End}}
		}
		if t.Text == "{" {
			return p.table()
		}
	}
	return p.suffixedexp()
}

var binPrio = map[string][2]int{
	"+": {10, 10}, "-": {10, 10}, "*": {11, 11}, "%": {11, 11}, "^": {14, 13}, "/": {11, 11}, "//": {11, 11},
	"&": {6, 6}, "|": {4, 4}, "~": {5, 5}, "<<": {7, 7}, ">>": {7, 7}, "..": {9, 8},
	"==": {3, 3}, "<": {3, 3}, "<=": {3, 3}, "~=": {3, 3}, ">": {3, 3}, ">=": {3, 3}, "and": {2, 2}, "or": {1, 1},
}

const unaryPrio = 12

func (p *parser) binop() (string, bool) {
	t := p.cur()
	if t.Kind == Op || t.Kind == Keyword && (t.Text == "and" || t.Text == "or") {
		if _, ok := binPrio[t.Text]; ok {
			return t.Text, true
		}
	}
	return "", false
}

func (p *parser) expr() Expr { return p.subexpr(0) }

func exprSpan(e Expr) Span {
	switch x := e.(type) {
	case *NilExpr:
		return x.Span
	case *TrueExpr:
		return x.Span
	case *FalseExpr:
		return x.Span
	case *VarargExpr:
		return x.Span
	case *NumberExpr:
		return x.Span
	case *StringExpr:
		return x.Span
	case *NameExpr:
		return x.Span
	case *IndexExpr:
		return x.Span
	case *CallExpr:
		return x.Span
	case *ParenExpr:
		return x.Span
	case *FuncExpr:
		return x.Span
	case *TableExpr:
		return x.Span
	case *BinExpr:
		return x.Span
	case *UnExpr:
		return x.Span
	}
	return Span{}
}

// ExprSpan exposes the source span of an expression.
func ExprSpan(e Expr) Span { return exprSpan(e) }

func (p *parser) subexpr(limit int) Expr {
	var e Expr
	t := p.cur()
	if t.Kind == Keyword && t.Text == "not" || t.Kind == Op && (t.Text == "-" || t.Text == "#" || t.Text == "~") {
		p.next()
		o := p.subexpr(unaryPrio)
		e = &UnExpr{Span{t.Start, exprSpan(o).End}, t.Text, o}
	} else {
		e = p.simpleexp()
	}
	for {
		op, ok := p.binop()
		if !ok || binPrio[op][0] <= limit {
			return e
		}
		p.next()
		r := p.subexpr(binPrio[op][1])
		e = &BinExpr{Span{exprSpan(e).Start, exprSpan(r).End}, op, e, r}
	}
}
