package luaref

import "testing"

func TestGrammar(t *testing.T) {
	valid := []string{
		"", ";", "local a", "local a <const>, b <close> = 1, 2", "a = 1", "a, b.c, d[1] = 1, 2, 3", "f()", "f{}", `f"s"`, "f[[x]]", "a.b:c(1)(2)",
		"::l:: goto l", "do end", "while 1 do break end", "repeat local x until x", "if a then elseif b then else end",
		"for i = 1, 2 do end", "for i = 1, 2, 3 do end", "for k, v in pairs(t) do end", "function a.b.c:m(x, ...) end",
		"local function f() end", "return", "return 1, 2;", "x = 1 // 2 ~ 3 << 4 >> 5 & 6 | ~7", "x = -x ^ -y", "x = not a == b",
		"x = 0x1p4 + 0xA.8 + 1e10 + .5 + 3. + 0x.1", "x = 1LL + 2ULL + 0xffULL + 1ll", `x = "\x41\65\u{48}\z   b\
c"`, "x = [==[ ]] ]==]", "--[[ c ]] x = 1 -- c", "x = a.b.c[1].d", "x = function(...) return ... end", "x = {1, a = 2, [3] = 4; 5,}",
		"(f)()", "(a).b = 1", "a.b['c'] = 1", "x = a..b", "x = 1 .. 2", "x = 2^-3", "x = a < b == c", "f(...)", "x = #t + -1", "goto continue",
		"local x <const> = 1", "x = a or b and c", "return f()", "x = 'a\\'b'", "x = ...",
	}
	invalid := []string{
		"local", "a =", "= 1", "a b", "1 = a", "(a) = 1", "f() = 1", "a.b:c = 1", "a:b", "x = ", "local a = ", "do", "end", "while do end",
		"if a then", "for i = 1 do end", "for in x do end", "function() end", "local function a.b() end", "return return", "return 1 x = 2",
		"x = 1 +", "x = + 1", "x = 1..2", "x = 0x", "x = 1e", "x = 1e+", "x = 0xp1", "x = 3..2", `x = "a`, `x = "a
"`, `x = "\q"`, `x = "\x4"`, `x = "\256"`, `x = "\u{}"`, "x = [[", "--[[", "x = [=", "x = a !", "x = @", "x = {1 2}", "x = {,}", "f(1,)",
		"local a.b = 1", "a, = 1", "a, b", "f() g() = 1", "::a", "goto", "x = a.1", "x = a..", "break break x", "x = ~", "x = a ~", "local x <const",
		"x = (1", "x = 1)", "x = {", "x = }", "x = a[1", "function f( end", "function f(a,) end", "function f(..., a) end", "x = a not b", "x = 1 2",
		"local function () end", "for a.b = 1, 2 do end", "x = 1ea", "x = 1a", "x = 0xg", "x = '\\u{80000000}'",
	}
	for _, s := range valid {
		r := Parse(s)
		if r.Err != nil {
			t.Errorf("valid rejected: %q: %v", s, r.Err)
		}
	}
	for _, s := range invalid {
		r := Parse(s)
		if r.Err == nil {
			t.Errorf("invalid accepted: %q", s)
		}
	}
}

func TestBinder(t *testing.T) {
	type ex struct {
		src   string
		wants []int // for each occurrence in source order: decl index or -1
	}
	cases := []ex{
		{"local a = a", []int{0, -1}},                                   // decl a(0), read a → global
		{"local a = 1 local a = a", []int{0, 1, 0}},                     // second init sees first
		{"local function f() return f end", []int{0, 0}},                // local function visible in body
		{"local f = function() return f end", []int{0, -1}},             // not visible in its initialiser
		{"repeat local x = 1 until x", []int{0, 0}},                     // until sees body local
		{"for i = i, 2 do print(i) end", []int{0, -1, -1, 0}},           // bounds outside
		{"for k, v in k do v = k end", []int{0, 1, -1, 1, 0}},           // explist outside
		{"local a local function g(a) return a end a = 1", []int{0, 1, 2, 2, 0}},
		{"do local a end a = 1", []int{0, -1}},
		{"local b, c = 1, b", []int{0, 1, -1}},
		{"function t:m() return self end", []int{-1, 0}},
		{"local x = function(x) return x end", []int{0, 1, 1}},
	}
	for _, c := range cases {
		r := Parse(c.src)
		if r.Err != nil {
			t.Fatalf("%q: %v", c.src, r.Err)
		}
		b := Bind(r.Chunk)
		var got []int
		for _, o := range b.Occs {
			got = append(got, o.Decl)
		}
		// order of occurrences is source order; decl indices are in declaration order
		ok := len(got) == len(c.wants)
		if ok {
			// compare up to renaming: map occurrence decl ids to first-seen order
			for i := range got {
				if (got[i] < 0) != (c.wants[i] < 0) {
					ok = false
				}
			}
			for i := range got {
				for j := range got {
					if (got[i] == got[j]) != (c.wants[i] == c.wants[j]) {
						ok = false
					}
				}
			}
		}
		if !ok {
			t.Errorf("%q: got %v want %v", c.src, got, c.wants)
		}
	}
}
