// Package luaref is an independent reference front end for Lua 5.3/5.4 plus
// LuaJIT LL/ULL numerals, written from the reference manual (§3.1 lexical
// conventions, §9 grammar, §3.5 visibility rules) and from llex.c's numeral
// and escape rules.  It shares no code with the implementation under test.
package luaref

import (
	"fmt"
	"strings"
)

type Kind int

const (
	EOF Kind = iota
	Name
	Number
	String
	Keyword // Text holds the keyword
	Op      // Text holds the operator / separator
)

type Token struct {
	Kind       Kind
	Text       string // raw text (keywords, operators, names, numerals); raw source for strings
	Val        string // decoded value for strings
	Start, End int    // byte offsets
	Long       bool   // long-bracket string
}

func (t Token) String() string { return fmt.Sprintf("%d:%q", t.Kind, t.Text) }

type Comment struct {
	Start, End int
	Text       string // without the leading "--" (short) or the brackets (long)
	Long       bool
}

var keywords = map[string]bool{"and": true, "break": true, "do": true, "else": true, "elseif": true, "end": true,
	"false": true, "for": true, "function": true, "goto": true, "if": true, "in": true, "local": true, "nil": true,
	"not": true, "or": true, "repeat": true, "return": true, "then": true, "true": true, "until": true, "while": true}

// LexResult carries tokens plus the flags of constructs on which Lua 5.3,
// Lua 5.4 and LuaJIT disagree (the "don't-care" zones of the oracle).
type LexResult struct {
	Tokens   []Token
	Comments []Comment
	Err      error
	// DontCare lists reasons why acceptance of this text is version dependent.
	DontCare []string
}

func isAlpha(c byte) bool  { return c >= 'a' && c <= 'z' || c >= 'A' && c <= 'Z' || c == '_' }
func isDigit(c byte) bool  { return c >= '0' && c <= '9' }
func isXDigit(c byte) bool { return isDigit(c) || c >= 'a' && c <= 'f' || c >= 'A' && c <= 'F' }
func isSpace(c byte) bool {
	return c == ' ' || c == '\t' || c == '\n' || c == '\r' || c == '\f' || c == '\v'
}

type lexer struct {
	s   string
	i   int
	res *LexResult
}

func (l *lexer) errf(f string, a ...interface{}) {
	if l.res.Err == nil {
		l.res.Err = fmt.Errorf("offset %d: %s", l.i, fmt.Sprintf(f, a...))
	}
}

func (l *lexer) care(reason string) {
	for _, r := range l.res.DontCare {
		if r == reason {
			return
		}
	}
	l.res.DontCare = append(l.res.DontCare, reason)
}

// longBracket: at s[i]=='[' ; returns level (>=0) if "[" "="* "[" starts here, -1 if plain '[',
// -2 if "[=" not followed by '[' (invalid long string delimiter).
func (l *lexer) longOpen(i int) int {
	j := i + 1
	for j < len(l.s) && l.s[j] == '=' {
		j++
	}
	if j < len(l.s) && l.s[j] == '[' {
		return j - i - 1
	}
	if j-i-1 == 0 {
		return -1
	}
	return -2
}

// readLong consumes a long bracket body starting at the opening '[' and
// returns the content; ok=false if unterminated.
func (l *lexer) readLong(level int) (string, bool) {
	l.i += level + 2
	// first newline is skipped
	if l.i < len(l.s) && (l.s[l.i] == '\n' || l.s[l.i] == '\r') {
		c := l.s[l.i]
		l.i++
		if l.i < len(l.s) && (l.s[l.i] == '\n' || l.s[l.i] == '\r') && l.s[l.i] != c {
			l.i++
		}
	}
	start := l.i
	for l.i < len(l.s) {
		if l.s[l.i] == ']' {
			j := l.i + 1
			for j < len(l.s) && l.s[j] == '=' {
				j++
			}
			if j-l.i-1 == level && j < len(l.s) && l.s[j] == ']' {
				content := l.s[start:l.i]
				l.i = j + 1
				return content, true
			}
		}
		l.i++
	}
	return "", false
}

// Lex tokenises src completely (stops at the first lexical error).
func Lex(src string) *LexResult {
	res := &LexResult{}
	l := &lexer{s: src, res: res}
	if strings.HasPrefix(src, "\xef\xbb\xbf") {
		l.care("byte order mark")
		l.i = 3
	}
	if l.i < len(src) && src[l.i] == '#' {
		// luaL_loadfile skips a first line starting with '#'; the core lexer does not
		l.care("first line starts with #")
	}
	for res.Err == nil {
		for l.i < len(src) && isSpace(src[l.i]) {
			l.i++
		}
		if l.i >= len(src) {
			break
		}
		c := src[l.i]
		start := l.i
		switch {
		case c == '-' && l.i+1 < len(src) && src[l.i+1] == '-':
			l.i += 2
			if l.i < len(src) && src[l.i] == '[' {
				if lv := l.longOpen(l.i); lv >= 0 {
					body, ok := l.readLong(lv)
					if !ok {
						l.errf("unfinished long comment")
						break
					}
					res.Comments = append(res.Comments, Comment{start, l.i, body, true})
					continue
				}
			}
			for l.i < len(src) && src[l.i] != '\n' && src[l.i] != '\r' {
				l.i++
			}
			res.Comments = append(res.Comments, Comment{start, l.i, src[start+2 : l.i], false})
		case isAlpha(c):
			for l.i < len(src) && (isAlpha(src[l.i]) || isDigit(src[l.i])) {
				l.i++
			}
			if l.i < len(src) && src[l.i] >= 0x80 {
				l.care("non-ASCII byte in identifier (LuaJIT accepts, Lua rejects)")
			}
			t := src[start:l.i]
			if keywords[t] {
				res.Tokens = append(res.Tokens, Token{Kind: Keyword, Text: t, Start: start, End: l.i})
			} else {
				res.Tokens = append(res.Tokens, Token{Kind: Name, Text: t, Start: start, End: l.i})
			}
		case isDigit(c) || c == '.' && l.i+1 < len(src) && isDigit(src[l.i+1]):
			l.number()
		case c == '"' || c == '\'':
			l.shortString(c)
		case c == '[':
			lv := l.longOpen(l.i)
			if lv >= 0 {
				body, ok := l.readLong(lv)
				if !ok {
					l.errf("unfinished long string")
					break
				}
				res.Tokens = append(res.Tokens, Token{Kind: String, Text: src[start:l.i], Val: body, Start: start, End: l.i, Long: true})
			} else if lv == -2 {
				l.errf("invalid long string delimiter")
			} else {
				l.i++
				res.Tokens = append(res.Tokens, Token{Kind: Op, Text: "[", Start: start, End: l.i})
			}
		default:
			op := ""
			for _, cand := range []string{"...", "..", "::", "<<", ">>", "//", "==", "~=", "<=", ">=",
				"+", "-", "*", "/", "%", "^", "#", "&", "~", "|", "<", ">", "=", "(", ")", "{", "}", "]", ";", ":", ",", "."} {
				if strings.HasPrefix(src[l.i:], cand) {
					op = cand
					break
				}
			}
			if op == "" {
				if c >= 0x80 {
					l.care("non-ASCII byte outside strings and comments (LuaJIT treats it as an identifier character)")
				}
				l.errf("unexpected symbol %q", c)
				break
			}
			l.i += len(op)
			res.Tokens = append(res.Tokens, Token{Kind: Op, Text: op, Start: start, End: l.i})
		}
	}
	res.Tokens = append(res.Tokens, Token{Kind: EOF, Start: len(src), End: len(src)})
	return res
}

// number implements llex.c:read_numeral (the 5.3 loop) followed by the
// str2number validity rules, the 5.4 "force an error" rule and LuaJIT's
// LL/ULL suffixes.
func (l *lexer) number() {
	s := l.s
	start := l.i
	expo := "eE"
	l.i++
	if s[start] == '0' && l.i < len(s) && (s[l.i] == 'x' || s[l.i] == 'X') {
		expo = "pP"
		l.i++
	}
	for l.i < len(s) {
		c := s[l.i]
		if strings.IndexByte(expo, c) >= 0 {
			l.i++
			if l.i < len(s) && (s[l.i] == '+' || s[l.i] == '-') {
				l.i++
			}
			continue
		}
		if isXDigit(c) || c == '.' {
			l.i++
			continue
		}
		break
	}
	core := s[start:l.i]
	coreOK, isInt := ValidNumeral(core)
	if l.i < len(s) && (isAlpha(s[l.i]) || s[l.i] >= 0x80) {
		// a letter follows directly
		j := l.i
		for j < len(s) && (isAlpha(s[j]) || isDigit(s[j])) {
			j++
		}
		suffix := strings.ToLower(s[l.i:j])
		if coreOK && isInt && (suffix == "ll" || suffix == "ull") {
			l.i = j
			if l.i < len(s) && s[l.i] == '.' {
				// LuaJIT's numeral scanner also consumes dots: 1LL..x is one (malformed) numeral there
				l.care("LL/ULL numeral directly followed by '.'")
			}
			l.res.Tokens = append(l.res.Tokens, Token{Kind: Number, Text: s[start:l.i], Start: start, End: l.i})
			return
		}
		if coreOK && (suffix == "i" || suffix == "ll" || suffix == "ull") {
			l.care("LuaJIT imaginary / float-with-LL numeral")
		}
		if coreOK {
			// Lua 5.3 lexes "1y" as numeral 1 followed by name y; Lua 5.4 and LuaJIT reject it
			l.care("numeral directly followed by a letter (5.3 splits, 5.4 rejects)")
			l.res.Tokens = append(l.res.Tokens, Token{Kind: Number, Text: core, Start: start, End: l.i})
			return
		}
		l.errf("malformed number near %q", s[start:j])
		return
	}
	if !coreOK {
		l.errf("malformed number near %q", core)
		return
	}
	l.res.Tokens = append(l.res.Tokens, Token{Kind: Number, Text: core, Start: start, End: l.i})
}

// ValidNumeral decides whether s (already delimited by read_numeral) converts
// with lua's l_str2int / l_str2d.
func ValidNumeral(s string) (ok bool, isInt bool) {
	if len(s) >= 2 && s[0] == '0' && (s[1] == 'x' || s[1] == 'X') {
		r := s[2:]
		i := 0
		nd := 0
		for i < len(r) && isXDigit(r[i]) {
			i++
			nd++
		}
		if i == len(r) {
			return nd > 0, true
		}
		if r[i] == '.' {
			i++
			for i < len(r) && isXDigit(r[i]) {
				i++
				nd++
			}
		}
		if nd == 0 {
			return false, false
		}
		if i < len(r) && (r[i] == 'p' || r[i] == 'P') {
			i++
			if i < len(r) && (r[i] == '+' || r[i] == '-') {
				i++
			}
			ed := 0
			for i < len(r) && isDigit(r[i]) {
				i++
				ed++
			}
			if ed == 0 {
				return false, false
			}
		}
		return i == len(r), false
	}
	i := 0
	nd := 0
	for i < len(s) && isDigit(s[i]) {
		i++
		nd++
	}
	if i == len(s) {
		return nd > 0, true
	}
	if s[i] == '.' {
		i++
		for i < len(s) && isDigit(s[i]) {
			i++
			nd++
		}
	}
	if nd == 0 {
		return false, false
	}
	if i < len(s) && (s[i] == 'e' || s[i] == 'E') {
		i++
		if i < len(s) && (s[i] == '+' || s[i] == '-') {
			i++
		}
		ed := 0
		for i < len(s) && isDigit(s[i]) {
			i++
			ed++
		}
		if ed == 0 {
			return false, false
		}
	}
	return i == len(s), false
}

func (l *lexer) shortString(q byte) {
	s := l.s
	start := l.i
	l.i++
	var val []byte
	for {
		if l.i >= len(s) {
			l.errf("unfinished string")
			return
		}
		c := s[l.i]
		if c == q {
			l.i++
			break
		}
		if c == '\n' || c == '\r' {
			l.errf("unfinished string (line break)")
			return
		}
		if c != '\\' {
			val = append(val, c)
			l.i++
			continue
		}
		l.i++
		if l.i >= len(s) {
			l.errf("unfinished string")
			return
		}
		e := s[l.i]
		switch e {
		case 'a':
			val = append(val, 7)
			l.i++
		case 'b':
			val = append(val, 8)
			l.i++
		case 'f':
			val = append(val, 12)
			l.i++
		case 'n':
			val = append(val, '\n')
			l.i++
		case 'r':
			val = append(val, '\r')
			l.i++
		case 't':
			val = append(val, '\t')
			l.i++
		case 'v':
			val = append(val, 11)
			l.i++
		case '\\', '"', '\'':
			val = append(val, e)
			l.i++
		case '\n', '\r':
			val = append(val, '\n')
			l.i++
			if l.i < len(s) && (s[l.i] == '\n' || s[l.i] == '\r') && s[l.i] != e {
				l.i++
			}
		case 'z':
			l.i++
			for l.i < len(s) && isSpace(s[l.i]) {
				l.i++
			}
		case 'x':
			if l.i+2 < len(s) && isXDigit(s[l.i+1]) && isXDigit(s[l.i+2]) {
				val = append(val, hexv(s[l.i+1])<<4|hexv(s[l.i+2]))
				l.i += 3
			} else {
				l.errf("hexadecimal digit expected")
				return
			}
		case 'u':
			j := l.i + 1
			if j >= len(s) || s[j] != '{' {
				l.errf("missing '{' in \\u{xxxx}")
				return
			}
			j++
			v := uint64(0)
			nd := 0
			for j < len(s) && isXDigit(s[j]) {
				v = v<<4 | uint64(hexv(s[j]))
				if v > 0x7FFFFFFF {
					l.errf("UTF-8 value too large")
					return
				}
				j++
				nd++
			}
			if nd == 0 {
				l.errf("hexadecimal digit expected")
				return
			}
			if j >= len(s) || s[j] != '}' {
				l.errf("missing '}' in \\u{xxxx}")
				return
			}
			if v > 0x10FFFF {
				l.care("\\u escape above 10FFFF (5.4 accepts, 5.3 rejects)")
			}
			val = append(val, []byte(string(rune(v)))...)
			l.i = j + 1
		default:
			if isDigit(e) {
				v := 0
				n := 0
				for n < 3 && l.i < len(s) && isDigit(s[l.i]) {
					v = v*10 + int(s[l.i]-'0')
					l.i++
					n++
				}
				if v > 255 {
					l.errf("decimal escape too large")
					return
				}
				val = append(val, byte(v))
			} else {
				l.errf("invalid escape sequence \\%c", e)
				return
			}
		}
	}
	l.res.Tokens = append(l.res.Tokens, Token{Kind: String, Text: s[start:l.i], Val: string(val), Start: start, End: l.i})
}

func hexv(c byte) byte {
	switch {
	case c >= '0' && c <= '9':
		return c - '0'
	case c >= 'a' && c <= 'f':
		return c - 'a' + 10
	default:
		return c - 'A' + 10
	}
}
