package luaref

import "sort"

// Decl is a local variable declaration (local, parameter, loop variable,
// local function, implicit self).
type Decl struct {
	ID   int
	Name string
	Span        // span of the declaring identifier (zero-length for implicit self)
	Kind string // local | param | loopvar | localfunc | self
	// Attrib is the <const>/<close> attribute of a local.
	Attrib string
	// Init is the initialiser expression positionally matched to this name
	// (nil if none).
	Init Expr
	// VisFrom..ScopeEnd is the region (byte offsets) in which the declaration
	// is visible, unless shadowed.
	VisFrom, ScopeEnd int
	// FuncDepth is the number of enclosing function bodies.
	FuncDepth int
	// Stat is the declaring statement.
	Stat Stat
}

// Occ is one occurrence of a variable name.
type Occ struct {
	Span
	Name string
	Kind string // decl | read | write
	Decl int    // index into Decls, -1 for a global name
	// GlobalDef marks occurrences that define a global (bare-name assignment
	// target or `function g()` with no visible local).
	GlobalDef bool
	// FuncDepth of the occurrence (closure reads have a larger depth than
	// their declaration).
	FuncDepth int
	// Ctx describes the syntactic context of a read (for the don't-care
	// zones of C07): "" | "or-default" (x = x or v) | "not" | "nil-compare".
	Ctx string
	// TopLevel: the occurrence is not inside any function body.
	TopLevel bool
}

type Binding struct {
	Decls []Decl
	Occs  []Occ
}

type scope struct {
	parent *scope
	vars   map[string]int
}

type binder struct {
	b         *Binding
	sc        *scope
	funcDepth int
}

func (b *binder) push() { b.sc = &scope{parent: b.sc, vars: map[string]int{}} }
func (b *binder) pop()  { b.sc = b.sc.parent }

func (b *binder) lookup(name string) int {
	for s := b.sc; s != nil; s = s.parent {
		if id, ok := s.vars[name]; ok {
			return id
		}
	}
	return -1
}

func (b *binder) declare(n NameRef, kind string, visFrom, scopeEnd int, st Stat) int {
	id := len(b.b.Decls)
	b.b.Decls = append(b.b.Decls, Decl{ID: id, Name: n.Name, Span: n.Span, Kind: kind, VisFrom: visFrom, ScopeEnd: scopeEnd, FuncDepth: b.funcDepth, Stat: st})
	b.sc.vars[n.Name] = id
	if kind != "self" {
		b.b.Occs = append(b.b.Occs, Occ{Span: n.Span, Name: n.Name, Kind: "decl", Decl: id, FuncDepth: b.funcDepth, TopLevel: b.funcDepth == 0})
	}
	return id
}

func (b *binder) use(n NameRef, kind string, ctx string) *Occ {
	id := b.lookup(n.Name)
	b.b.Occs = append(b.b.Occs, Occ{Span: n.Span, Name: n.Name, Kind: kind, Decl: id, FuncDepth: b.funcDepth, Ctx: ctx, TopLevel: b.funcDepth == 0})
	return &b.b.Occs[len(b.b.Occs)-1]
}

// Bind resolves every name occurrence of a parsed chunk.
func Bind(chunk *Block) *Binding {
	b := &binder{b: &Binding{}}
	b.push()
	b.block(chunk, chunk.End)
	b.pop()
	sort.SliceStable(b.b.Occs, func(i, j int) bool { return b.b.Occs[i].Start < b.b.Occs[j].Start })
	return b.b
}

// block binds the statements of blk in the current scope; scopeEnd is the
// offset where the scope of its locals ends.
func (b *binder) block(blk *Block, scopeEnd int) {
	for _, st := range blk.Stats {
		b.stat(st, scopeEnd)
	}
}

func (b *binder) scoped(blk *Block) {
	b.push()
	b.block(blk, blk.End)
	b.pop()
}

func (b *binder) stat(st Stat, scopeEnd int) {
	switch s := st.(type) {
	case *LocalStat:
		for _, e := range s.Exprs {
			b.expr(e, "")
		}
		for i, n := range s.Names {
			id := b.declare(n, "local", s.End, scopeEnd, st)
			b.b.Decls[id].Attrib = s.Attribs[i]
			if i < len(s.Exprs) {
				b.b.Decls[id].Init = s.Exprs[i]
			}
		}
	case *AssignStat:
		// x = x or v idiom context
		for i, e := range s.Exprs {
			ctx := ""
			if be, ok := e.(*BinExpr); ok && be.Op == "or" && i < len(s.Targets) {
				if tn, ok := s.Targets[i].(*NameExpr); ok {
					if ln, ok := be.L.(*NameExpr); ok && ln.Name == tn.Name {
						ctx = "or-default"
					}
				}
			}
			if ctx != "" {
				be := e.(*BinExpr)
				b.use(be.L.(*NameExpr).NameRef, "read", ctx)
				b.expr(be.R, "")
			} else {
				b.expr(e, "")
			}
		}
		for _, t := range s.Targets {
			if n, ok := t.(*NameExpr); ok {
				o := b.use(n.NameRef, "write", "")
				if o.Decl < 0 {
					o.GlobalDef = true
				}
			} else {
				b.expr(t, "")
			}
		}
	case *CallStat:
		b.expr(s.Call, "")
	case *DoStat:
		b.scoped(s.Body)
	case *WhileStat:
		b.expr(s.Cond, "")
		b.scoped(s.Body)
	case *RepeatStat:
		b.push()
		b.block(s.Body, s.End)
		b.expr(s.Cond, "")
		b.pop()
	case *IfStat:
		for i, c := range s.Conds {
			b.expr(c, "")
			b.scoped(s.Blocks[i])
		}
		if s.Else != nil {
			b.scoped(s.Else)
		}
	case *NumForStat:
		b.expr(s.Init, "")
		b.expr(s.Limit, "")
		if s.Step != nil {
			b.expr(s.Step, "")
		}
		b.push()
		b.declare(s.Var, "loopvar", s.Body.Start, s.Body.End, st)
		b.block(s.Body, s.Body.End)
		b.pop()
	case *GenForStat:
		for _, e := range s.Exprs {
			b.expr(e, "")
		}
		b.push()
		for _, n := range s.Names {
			b.declare(n, "loopvar", s.Body.Start, s.Body.End, st)
		}
		b.block(s.Body, s.Body.End)
		b.pop()
	case *FuncStat:
		if len(s.Path) == 1 && s.Method == nil {
			o := b.use(s.Path[0], "write", "")
			if o.Decl < 0 {
				o.GlobalDef = true
			}
		} else {
			b.use(s.Path[0], "read", "")
		}
		b.function(s.Func, st)
	case *LocalFuncStat:
		b.declare(s.Name, "localfunc", s.Name.End, scopeEnd, st)
		b.function(s.Func, st)
	case *ReturnStat:
		for _, e := range s.Exprs {
			b.expr(e, "")
		}
	}
}

func (b *binder) function(f *FuncExpr, st Stat) {
	b.push()
	b.funcDepth++
	if f.HasSelf {
		b.declare(NameRef{Span{f.Body.Start, f.Body.Start}, "self"}, "self", f.Body.Start, f.EndTok.Start, st)
	}
	for _, p := range f.Params {
		b.declare(p, "param", f.Body.Start, f.EndTok.Start, st)
	}
	b.block(f.Body, f.EndTok.Start)
	b.funcDepth--
	b.pop()
}

func (b *binder) expr(e Expr, ctx string) {
	switch x := e.(type) {
	case *NameExpr:
		b.use(x.NameRef, "read", ctx)
	case *IndexExpr:
		b.expr(x.Obj, "")
		if !x.Dot {
			b.expr(x.Key, "")
		}
	case *CallExpr:
		b.expr(x.Fn, "")
		for _, a := range x.Args {
			b.expr(a, "")
		}
	case *ParenExpr:
		b.expr(x.E, ctx)
	case *FuncExpr:
		b.function(x, nil)
	case *TableExpr:
		for _, f := range x.Fields {
			if f.Key != nil && f.NameKey == nil {
				b.expr(f.Key, "")
			}
			b.expr(f.Val, "")
		}
	case *BinExpr:
		c := ""
		if x.Op == "==" || x.Op == "~=" {
			if _, ok := x.R.(*NilExpr); ok {
				c = "nil-compare"
			}
			if _, ok := x.L.(*NilExpr); ok {
				c = "nil-compare"
			}
		}
		b.expr(x.L, c)
		b.expr(x.R, c)
	case *UnExpr:
		c := ""
		if x.Op == "not" {
			c = "not"
		}
		b.expr(x.E, c)
	}
}

// VisibleAt returns the declarations visible at byte offset off (innermost
// shadowing applied), keyed by name.
func (bd *Binding) VisibleAt(off int) map[string]int {
	vis := map[string]int{}
	for _, d := range bd.Decls {
		if d.VisFrom <= off && off <= d.ScopeEnd {
			// later declaration in an enclosing-or-same region shadows
			if old, ok := vis[d.Name]; !ok || bd.Decls[old].VisFrom <= d.VisFrom {
				vis[d.Name] = d.ID
			}
		}
	}
	return vis
}
