// Package annref is the reference reader of the annotation type grammar documented in docs/manual/annotate.md:
//   TYPE    ::= POSTFIX { '|' POSTFIX }
//   POSTFIX ::= PRIMARY { '[' ']' }
//   PRIMARY ::= NAME | 'table' [ '<' TYPE ',' TYPE '>' ] | 'fun' '(' [ PARAM { ',' PARAM } ] ')' [ ':' TYPE { ',' TYPE } ] | '(' TYPE ')'
//   PARAM   ::= NAME [ '?' ] ':' TYPE
// Types are turned into canonical S-expressions so that trees can be compared independently of their representation.
package annref

import (
	"fmt"
	"strings"
)

type tok struct {
	k string // name | sym | eof
	s string
}

func lex(s string) ([]tok, error) {
	var out []tok
	i := 0
	for i < len(s) {
		c := s[i]
		switch {
		case c == ' ' || c == '\t':
			i++
		case c == '_' || c >= 'a' && c <= 'z' || c >= 'A' && c <= 'Z':
			j := i
			for j < len(s) && (s[j] == '_' || s[j] == '.' || s[j] >= 'a' && s[j] <= 'z' || s[j] >= 'A' && s[j] <= 'Z' || s[j] >= '0' && s[j] <= '9') {
				j++
			}
			out = append(out, tok{"name", s[i:j]})
			i = j
		case strings.ContainsRune("|[]<>,():?", rune(c)):
			out = append(out, tok{"sym", string(c)})
			i++
		default:
			return nil, fmt.Errorf("unexpected character %q", c)
		}
	}
	return append(out, tok{"eof", ""}), nil
}

type parser struct {
	t []tok
	p int
}

func (p *parser) is(s string) bool { return p.t[p.p].k == "sym" && p.t[p.p].s == s }
func (p *parser) eat(s string) error {
	if !p.is(s) {
		return fmt.Errorf("%q expected near %q", s, p.t[p.p].s)
	}
	p.p++
	return nil
}

// ParseType parses a complete type expression and returns its S-expression.
func ParseType(s string) (string, error) {
	ts, err := lex(s)
	if err != nil {
		return "", err
	}
	p := &parser{t: ts}
	r, err := p.typ()
	if err != nil {
		return "", err
	}
	if p.t[p.p].k != "eof" {
		return "", fmt.Errorf("trailing input near %q", p.t[p.p].s)
	}
	return r, nil
}

func (p *parser) typ() (string, error) {
	first, err := p.postfix()
	if err != nil {
		return "", err
	}
	alts := []string{first}
	for p.is("|") {
		p.p++
		n, err := p.postfix()
		if err != nil {
			return "", err
		}
		alts = append(alts, n)
	}
	if len(alts) == 1 {
		return first, nil
	}
	return "(union " + strings.Join(alts, " ") + ")", nil
}

func (p *parser) postfix() (string, error) {
	r, err := p.primary()
	if err != nil {
		return "", err
	}
	for p.is("[") {
		p.p++
		if err := p.eat("]"); err != nil {
			return "", err
		}
		r = "(arr " + r + ")"
	}
	return r, nil
}

func (p *parser) primary() (string, error) {
	t := p.t[p.p]
	if p.is("(") {
		p.p++
		r, err := p.typ()
		if err != nil {
			return "", err
		}
		return r, p.eat(")")
	}
	if t.k != "name" {
		return "", fmt.Errorf("type expected near %q", t.s)
	}
	p.p++
	switch t.s {
	case "table":
		if !p.is("<") {
			return "(table)", nil
		}
		p.p++
		k, err := p.typ()
		if err != nil {
			return "", err
		}
		if err := p.eat(","); err != nil {
			return "", err
		}
		v, err := p.typ()
		if err != nil {
			return "", err
		}
		return "(table " + k + " " + v + ")", p.eat(">")
	case "fun":
		if err := p.eat("("); err != nil {
			return "", err
		}
		var ps []string
		for !p.is(")") {
			n := p.t[p.p]
			if n.k != "name" {
				return "", fmt.Errorf("parameter name expected near %q", n.s)
			}
			p.p++
			opt := ""
			if p.is("?") {
				p.p++
				opt = "?"
			}
			if err := p.eat(":"); err != nil {
				return "", err
			}
			pt, err := p.typ()
			if err != nil {
				return "", err
			}
			ps = append(ps, "("+n.s+opt+" "+pt+")")
			if p.is(",") {
				p.p++
				continue
			}
			break
		}
		if err := p.eat(")"); err != nil {
			return "", err
		}
		var rs []string
		if p.is(":") {
			p.p++
			for {
				rt, err := p.typ()
				if err != nil {
					return "", err
				}
				rs = append(rs, rt)
				if p.is(",") {
					p.p++
					continue
				}
				break
			}
		}
		return "(fun (" + strings.Join(ps, " ") + ") (" + strings.Join(rs, " ") + "))", nil
	}
	return "(name " + t.s + ")", nil
}
