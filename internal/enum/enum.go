// Package enum holds ranked, deterministic, exhaustive enumerators.
package enum

// CountStrings is the number of strings of length <= L over k symbols.
func CountStrings(k, L int) int64 {
	var n, p int64 = 0, 1
	for l := 0; l <= L; l++ {
		n += p
		p *= int64(k)
	}
	return n
}

// StringAt returns the idx-th string (shortlex order) as symbol indices.
func StringAt(k int, idx int64) []int {
	l := 0
	p := int64(1)
	for idx >= p {
		idx -= p
		p *= int64(k)
		l++
	}
	out := make([]int, l)
	for i := l - 1; i >= 0; i-- {
		out[i] = int(idx % int64(k))
		idx /= int64(k)
	}
	return out
}

// Join maps symbol indices through an alphabet.
func Join(alpha []string, ix []int, sep string) string {
	n := 0
	for _, i := range ix {
		n += len(alpha[i]) + len(sep)
	}
	b := make([]byte, 0, n)
	for j, i := range ix {
		if j > 0 {
			b = append(b, sep...)
		}
		b = append(b, alpha[i]...)
	}
	return string(b)
}

// Prefix sums helper: Locate finds k with cum[k] <= idx < cum[k+1].
func Locate(cum []int64, idx int64) int {
	lo, hi := 0, len(cum)-1
	for lo+1 < hi {
		mid := (lo + hi) / 2
		if cum[mid] <= idx {
			lo = mid
		} else {
			hi = mid
		}
	}
	return lo
}
