#!/bin/sh
# builds the framework (from the directory this script lives in) against /repo's current working tree (offline)
export GOFLAGS=-mod=mod GOPROXY=off GOSUMDB=off GOTOOLCHAIN=local
set -e
H=$(cd "$(dirname "$0")" && pwd)
export VERIF_HOME=$H
cd $H
mkdir -p bin .build
go build -o bin/vinstr ./cmd/vinstr
bin/vinstr
go build -tags verif -overlay $H/.build/overlay.json -o bin/vcheck ./cmd/vcheck
