#!/bin/sh
# builds the framework (from the directory this script lives in) against the repository's current working tree (offline).
# VERIF_REPO=<dir> builds bin/vcheck-alt against a scratch copy of the repository instead of /repo.
export GOFLAGS=-mod=mod GOPROXY=off GOSUMDB=off GOTOOLCHAIN=local
set -e
H=$(cd "$(dirname "$0")" && pwd)
export VERIF_HOME=$H
cd $H
mkdir -p bin .build
go build -o bin/vinstr ./cmd/vinstr
bin/vinstr
# TLC behaviours of the dispatcher model (replayed against the real jrpc2.Server by the C10 check)
mkdir -p .build/tla
for n in 2 3 4; do
  if [ ! -s .build/tla/traces$n.json ] || [ tla/Dispatch.tla -nt .build/tla/traces$n.json ]; then
    python3 tools/tla_traces.py $n .build/tla/traces$n.json || echo "tla_traces: TLC run failed (the C10 replay space will report missing traces)"
  fi
done
if [ -n "$VERIF_REPO" ]; then
  T=${VERIF_ALT_TAG:-alt}
  mkdir -p .build/$T
  sed "s#=> /repo/luahelper-lsp#=> $VERIF_REPO/luahelper-lsp#" go.mod > .build/$T/go.mod
  cp go.sum .build/$T/go.sum
  go build -modfile=$H/.build/$T/go.mod -tags verif -overlay $H/.build/$T/overlay.json -o bin/vcheck-$T ./cmd/vcheck
  # the same program with Go's race detector, used free-running by the race pass of C09/C10
  CGO_ENABLED=1 go build -race -modfile=$H/.build/$T/go.mod -tags verif -overlay $H/.build/$T/overlay.json -o bin/vcheck-$T-race ./cmd/vcheck
else
  go build -tags verif -overlay $H/.build/overlay.json -o bin/vcheck ./cmd/vcheck
  CGO_ENABLED=1 go build -race -tags verif -overlay $H/.build/overlay.json -o bin/vcheck-race ./cmd/vcheck
fi
