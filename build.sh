#!/bin/sh
# builds the framework against /repo's current working tree (offline)
export GOFLAGS=-mod=mod GOPROXY=off GOSUMDB=off GOTOOLCHAIN=local
set -e
cd /verif
mkdir -p bin .build
go build -o bin/vinstr ./cmd/vinstr
bin/vinstr
go build -tags verif -overlay /verif/.build/overlay.json -o bin/vcheck ./cmd/vcheck
