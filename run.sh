#!/bin/sh
# usage: run.sh <ID> <quick|thorough>   (rebuilds from /repo's working tree, then runs the check)
H=$(cd "$(dirname "$0")" && pwd)
cd $H || exit 2
mkdir -p .build
sh ./build.sh >$H/.build/build.log 2>&1 || { cat $H/.build/build.log; echo "build failed"; exit 2; }
exec $H/bin/vcheck run "$1" --tier "${2:-quick}"
