#!/bin/sh
# usage: run.sh <ID> <quick|thorough>   (rebuilds from /repo's working tree, then runs the check)
export GOFLAGS=-mod=mod GOPROXY=off GOSUMDB=off GOTOOLCHAIN=local
cd /verif || exit 2
sh ./build.sh >/verif/.build.log 2>&1 || { cat /verif/.build.log; echo "build failed"; exit 2; }
exec /verif/bin/vcheck run "$1" --tier "${2:-quick}"
