package checks

import (
	"fmt"
	"regexp"
	"strings"

	"luahelper-lsp/langserver/check/compiler/parser"

	"verif/internal/core"
	"verif/internal/drv"
	"verif/internal/enum"
	"verif/internal/luaref"
)

// C03: syntax diagnostics <=> the text is not valid Lua.

// one lexeme per token kind of lexer/token.go (59 kinds incl. EOF/illegal
// which have no lexeme) plus a few extra lexemes.
var c03Tokens = []string{
	"...", ";", ",", ".", ":", "::", "(", ")", "[", "]", "{", "}", "=", "-", "~", "+", "*", "/", "//", "^", "%", "&", "|", ">>", "<<", "..",
	"<", "<=", ">", ">=", "==", "~=", "#", "and", "or", "not", "break", "do", "else", "elseif", "end", "false", "for", "function", "goto",
	"if", "in", "local", "nil", "repeat", "return", "then", "true", "until", "while", "a", "1", `"s"`,
}
var c03Extra = []string{"0x1p1", "[=[s]=]", `"\z s"`, "1LL", "--[==[c]==]", "b"}

var quotedRe = regexp.MustCompile("`[^`]*`|'[^']*'|\"[^\"]*\"|[0-9]+")

// implVerdict runs the real parser; ok = no syntax error reported.
func implVerdict(src string) (ok bool, first string) {
	p := parser.CreateParser([]byte(src), "f.lua")
	_, _, errs := p.BeginAnalyze()
	if len(errs) == 0 {
		return true, ""
	}
	return false, errs[0].ErrStr
}

func c03Sig(refErr error, implFirst string) string {
	if refErr != nil {
		m := refErr.Error()
		if i := strings.Index(m, ": "); i >= 0 {
			m = m[i+2:]
		}
		if i := strings.Index(m, " near "); i >= 0 {
			m = m[:i]
		}
		m = quotedRe.ReplaceAllString(m, "_")
		return "invalid-accepted:" + m
	}
	return "valid-rejected:" + quotedRe.ReplaceAllString(implFirst, "_")
}

// judge compares the two recognisers on src.
func c03Judge(space string, i int64, src string, r *core.Result, sampleEvery int64) {
	r.Evaluated++
	r.Transitions++
	ref := luaref.Parse(src)
	ok, first := implVerdict(src)
	if len(ref.DontCare) > 0 {
		r.Count("dont_care_version_dependent", 1)
		return
	}
	r.States++
	if ref.Err == nil {
		r.Nontrivial++ // valid programs are the rarer, more informative half
		r.Count("reference_valid", 1)
	} else {
		r.Count("reference_invalid", 1)
	}
	if sampleEvery > 0 && i%sampleEvery == 0 {
		r.Sample(map[string]interface{}{"text": src, "reference_valid": ref.Err == nil, "impl_reports_no_syntax_error": ok})
	}
	if (ref.Err == nil) == ok {
		if ok {
			r.Outcome("both-accept")
		} else {
			r.Outcome("both-reject")
		}
		return
	}
	sig := c03Sig(ref.Err, first)
	r.Outcome(sig)
	det := map[string]interface{}{"text": src, "reference_valid": ref.Err == nil, "impl_first_error": first}
	if ref.Err != nil {
		det["reference_error"] = ref.Err.Error()
	}
	r.Fail(space, i, sig, src, det)
}

func c03TokSeqSpace(name string, alpha []string, L int, chunk int64) *core.Space {
	k := len(alpha)
	at := func(i int64) string { return enum.Join(alpha, enum.StringAt(k, i), " ") }
	return &core.Space{Name: name, N: enum.CountStrings(k, L), Chunk: chunk,
		Describe: func(i int64) interface{} { return map[string]interface{}{"text": at(i)} },
		Run:      func(i int64, r *core.Result) { c03Judge(name, i, at(i), r, 1000003) },
	}
}

func c03StringSpace(name string, alpha []string, L int, pre, post string) *core.Space {
	k := len(alpha)
	at := func(i int64) string { return pre + enum.Join(alpha, enum.StringAt(k, i), "") + post }
	return &core.Space{Name: name, N: enum.CountStrings(k, L), Chunk: 50000,
		Describe: func(i int64) interface{} { return map[string]interface{}{"text": at(i)} },
		Run:      func(i int64, r *core.Result) { c03Judge(name, i, at(i), r, 100003) },
	}
}

// ---- grammar-directed programs and their single-token mutants

func c03Exprs() []string {
	atoms := []string{"nil", "false", "true", "1", "0x1p1", "1LL", `"s"`, "[[s]]", "...", "a", "function() end", "{}"}
	unops := []string{"-", "not", "#", "~"}
	binops := []string{"+", "-", "*", "/", "//", "%", "^", "..", "<", "<=", ">", ">=", "==", "~=", "and", "or", "&", "|", "~", "<<", ">>"}
	es := append([]string{}, atoms...)
	for _, u := range unops {
		es = append(es, u+" a", u+" "+u+" a", u+" 1")
	}
	for _, b := range binops {
		es = append(es, "a "+b+" 1")
	}
	es = append(es, "a.b", "a[1]", "a.b.c", "a()", "a(1)", "a(1, 2)", "a{}", `a"s"`, "a[[s]]", "a:m()", "a:m(1)", "a.b:m{}", "(a)", "(a).b", "(a)()",
		"a()()", "a().b", "a[1][2]", `("s"):m()`, "(...)", "a.b()", "a[b]", "a[a.b]", "#a.b", "-a.b", "a.b.c.d", "a():m():n()")
	es = append(es, "{1}", "{1,2}", "{1;2}", "{1,}", "{x=1}", "{[1]=2}", "{x=1,[2]=3;4}", "{f()}", "{{}}", "{x=1;}", "{...}", "{function() end}")
	es = append(es, "function(a) end", "function(a,b) end", "function(...) end", "function(a,...) return a end", "function() return end", "function() return 1,2 end")
	for _, b1 := range binops {
		for _, b2 := range binops {
			es = append(es, "a "+b1+" b "+b2+" c")
		}
		for _, u := range unops {
			es = append(es, u+" a "+b1+" b", "a "+b1+" "+u+" b")
		}
	}
	return es
}

var c03StatForms = []string{
	";", "a = 1", "a, b = 1, 2", "a.b = 1", "a[1] = 1", "a.b, c[1] = 1", "f()", "f().x = 1", "a.b.c()", "a:m()", `f"s"`, "f{}",
	"::l::", "break", "goto l", "do end", "do a = 1 end", "while a do end", "while a do break end", "repeat until a", "repeat local x until x",
	"if a then end", "if a then else end", "if a then elseif b then end", "if a then elseif b then else end", "if a then a = 1 else b = 1 end",
	"for i = 1, 2 do end", "for i = 1, 2, 3 do end", "for k in p do end", "for k, v in p, q do end",
	"function f() end", "function f(a) end", "function f(a, b) end", "function f(...) end", "function f(a, ...) end", "function a.b() end",
	"function a.b.c() end", "function a:m() end", "function a.b:m(x) end", "local function f() end", "local function f(a) return a end",
	"local a", "local a, b", "local a = 1", "local a, b = 1, 2", "local a <const> = 1", "local a <close> = nil", "local a <const>, b = 1, 2",
	"return", "return 1", "return 1, 2", "return;", "return f()", "return a, ...",
}

type c03Prog struct {
	src  string
	toks []string
}

var c03ProgCache = map[string][]c03Prog{}

func c03Programs(tier string) []c03Prog {
	if p, ok := c03ProgCache[tier]; ok {
		return p
	}
	var srcs []string
	srcs = append(srcs, c03StatForms...)
	exprs := c03Exprs()
	holes := []string{"x = %s"}
	if tier == "thorough" {
		holes = []string{"x = %s", "local x = %s", "return %s", "f(%s)", "if %s then end", "while %s do end", "repeat until %s",
			"for i = %s, 1 do end", "for k in %s do end", "x[ %s ] = 1", "local t = {%s}"}
	}
	for _, h := range holes {
		for _, e := range exprs {
			srcs = append(srcs, fmt.Sprintf(h, e))
		}
	}
	// statement pairs (sequencing, return-must-be-last)
	for i, s1 := range c03StatForms {
		for j, s2 := range c03StatForms {
			if tier != "thorough" && (i+j)%7 != 0 {
				continue
			}
			if strings.HasPrefix(s1, "return") {
				continue // a return statement must be the last one of its block
			}
			srcs = append(srcs, s1+" "+s2)
		}
	}
	var ps []c03Prog
	for _, s := range srcs {
		lx := luaref.Lex(s)
		if lx.Err != nil {
			panic("generator produced unlexable program: " + s)
		}
		var toks []string
		for _, t := range lx.Tokens {
			if t.Kind != luaref.EOF {
				toks = append(toks, t.Text)
			}
		}
		ps = append(ps, c03Prog{s, toks})
	}
	c03ProgCache[tier] = ps
	return ps
}

// mutants of a token list: 0 = identity; deletions; duplications; adjacent swaps; substitutions by each alphabet token.
func c03MutantCount(n int) int64 {
	return 1 + int64(n) + int64(n) + int64(max(n-1, 0)) + int64(n)*int64(len(c03Tokens))
}

func c03Mutant(toks []string, m int64) (string, string) {
	n := int64(len(toks))
	out := append([]string{}, toks...)
	desc := "identity"
	switch {
	case m == 0:
	case m < 1+n:
		k := m - 1
		out = append(out[:k], out[k+1:]...)
		desc = fmt.Sprintf("delete@%d", k)
	case m < 1+2*n:
		k := m - 1 - n
		out = append(out[:k+1], out[k:]...)
		desc = fmt.Sprintf("duplicate@%d", k)
	case m < 1+2*n+max(n-1, 0):
		k := m - 1 - 2*n
		out[k], out[k+1] = out[k+1], out[k]
		desc = fmt.Sprintf("swap@%d", k)
	default:
		q := m - 1 - 2*n - max(n-1, 0)
		k := q / int64(len(c03Tokens))
		t := c03Tokens[q%int64(len(c03Tokens))]
		out[k] = t
		desc = fmt.Sprintf("substitute@%d:%s", k, t)
	}
	return strings.Join(out, " "), desc
}

func c03MutantSpace(tier string) *core.Space {
	var cum []int64
	var progs []c03Prog
	build := func() {
		if progs != nil {
			return
		}
		progs = c03Programs(tier)
		cum = make([]int64, len(progs)+1)
		for i, p := range progs {
			cum[i+1] = cum[i] + c03MutantCount(len(p.toks))
		}
	}
	build()
	at := func(i int64) (string, string, string) {
		k := enum.Locate(cum, i)
		src, d := c03Mutant(progs[k].toks, i-cum[k])
		return src, progs[k].src, d
	}
	return &core.Space{Name: "derivations-and-mutants", N: cum[len(progs)], Chunk: 50000,
		Describe: func(i int64) interface{} {
			s, base, d := at(i)
			return map[string]interface{}{"text": s, "base_program": base, "mutation": d}
		},
		Run: func(i int64, r *core.Result) {
			s, _, d := at(i)
			if d == "identity" {
				if luaref.Parse(s).Err != nil {
					r.Fail("derivations-and-mutants", i, "generator-program-not-valid-for-reference", s, map[string]interface{}{"text": s})
				}
			}
			c03Judge("derivations-and-mutants", i, s, r, 500009)
		},
	}
}

// ---- trivia: every assignment of separators to the gaps of short programs

var c03Seps = []string{" ", "\t", "\n", "\r\n", "\r", "--c\n", "--c\r", "--c\r\n", "--[[c]]", "--[=[\n]=]", ""}

func c03TriviaSpace(tier string) *core.Space {
	maxTok := 4
	if tier == "thorough" {
		maxTok = 5
	}
	type prog struct{ toks []string }
	var ps []prog
	seen := map[string]bool{}
	add := func(toks []string) {
		k := strings.Join(toks, " ")
		if len(toks) < 2 || len(toks) > maxTok || seen[k] {
			return
		}
		seen[k] = true
		ps = append(ps, prog{toks})
	}
	for _, p := range c03Programs("quick") {
		add(p.toks)
		// just-invalid neighbours: deletions and swaps
		n := int64(len(p.toks))
		for m := int64(1); m < 1+n; m++ {
			s, _ := c03Mutant(p.toks, m)
			add(strings.Fields(s))
		}
	}
	var cum []int64
	cum = append(cum, 0)
	nsep := int64(len(c03Seps))
	for _, p := range ps {
		c := int64(1)
		for g := 0; g < len(p.toks)-1; g++ {
			c *= nsep
		}
		cum = append(cum, cum[len(cum)-1]+c*3)
	}
	at := func(i int64) string {
		k := enum.Locate(cum, i)
		j := i - cum[k]
		ends := j % 3
		j /= 3
		toks := ps[k].toks
		var sb strings.Builder
		if ends == 1 {
			sb.WriteString("--c\r\n")
		} else if ends == 2 {
			sb.WriteString("\n")
		}
		for g, t := range toks {
			sb.WriteString(t)
			if g < len(toks)-1 {
				sep := c03Seps[j%nsep]
				j /= nsep
				if sep == "" {
					// nothing, unless the two tokens would fuse into other tokens
					lx := luaref.Lex(t + toks[g+1])
					if lx.Err != nil || len(lx.Tokens) != 3 || lx.Tokens[0].Text != t || lx.Tokens[1].Text != toks[g+1] || len(lx.DontCare) > 0 || len(lx.Comments) > 0 {
						sep = " "
					}
				}
				sb.WriteString(sep)
			}
		}
		if ends == 1 {
			sb.WriteString(" --[[c]]")
		} else if ends == 2 {
			sb.WriteString("\r")
		}
		return sb.String()
	}
	return &core.Space{Name: "trivia", N: cum[len(cum)-1], Chunk: 50000,
		Describe: func(i int64) interface{} { return map[string]interface{}{"text": at(i)} },
		Run:      func(i int64, r *core.Result) { c03Judge("trivia", i, at(i), r, 300007) },
	}
}

// ---- all short token strings planted in syntactic contexts

var c03Contexts = []string{"_", "x = _", "local _", "local a _", "return _", "f ( _ )", "f ( a , _ )", "x = { _ }", "x = { a , _ }",
	"function f ( _ ) end", "function f ( a , _ ) end", "function _ end", "for _ do end", "for i = _ do end", "for k , v in _ do end",
	"if _ end", "if a then _ end", "while _ end", "repeat _ until a", "do _ end", "x = a _", "x = a . _", "a _ = 1",
	"x = function ( _ ) end", "local function _ end", "x = ( _ )", "x = a [ _ ]", "goto _", ":: _", "x = a : _", "local a < _"}

var c03SubAlpha = []string{"a", "b", "1", `"s"`, ",", "...", "=", ".", ":", "(", ")", "[", "]", "{", "}", ";", "-", "not", "and",
	"function", "end", "do", "local", "then", "in", "<", ">", "const"}

func c03ContextSpace(L int) *core.Space {
	k := len(c03SubAlpha)
	per := enum.CountStrings(k, L)
	at := func(i int64) string {
		c := c03Contexts[i/per]
		return strings.Replace(c, "_", enum.Join(c03SubAlpha, enum.StringAt(k, i%per), " "), 1)
	}
	return &core.Space{Name: fmt.Sprintf("context-holes<=%d", L), N: per * int64(len(c03Contexts)), Chunk: 50000,
		Describe: func(i int64) interface{} { return map[string]interface{}{"text": at(i)} },
		Run:      func(i int64, r *core.Result) { c03Judge("context-holes", i, at(i), r, 700001) },
	}
}

// ---- binding "error list" to "published type-1 diagnostic": the same texts through the real server

func c03ServerSpace(tier string) *core.Space {
	progs := c03Programs("quick")
	var cum []int64
	cum = append(cum, 0)
	for _, p := range progs {
		cum = append(cum, cum[len(cum)-1]+1+int64(len(p.toks)))
	}
	stride := int64(7)
	if tier == "thorough" {
		stride = 1
	}
	n := (cum[len(progs)] + stride - 1) / stride
	at := func(i int64) string {
		j := i * stride
		k := enum.Locate(cum, j)
		src, _ := c03Mutant(progs[k].toks, j-cum[k])
		return src
	}
	return &core.Space{Name: "server-binding", N: n, Chunk: 200, RecycleEvery: 40,
		Describe: func(i int64) interface{} { return map[string]interface{}{"text": at(i), "via": "initialize+initialized on a one-file workspace"} },
		Run: func(i int64, r *core.Result) {
			src := at(i)
			r.Evaluated++
			ok, _ := implVerdict(src)
			root := drv.NewWorkspace(map[string]string{"f.lua": src})
			defer drv.RemoveWorkspace(root)
			s, err := drv.Start(root, drv.Options{InitOptions: drv.AllChecks()})
			if err != nil {
				r.Fail("server-binding", i, "server-start-failed", src, map[string]interface{}{"text": src, "error": err.Error()})
				return
			}
			defer s.Close()
			r.Transitions += 2
			has1 := false
			for _, d := range s.Diags["f.lua"] {
				if d.Type == 1 {
					has1 = true
				}
			}
			r.Validated++
			if has1 == ok {
				r.Fail("server-binding", i, fmt.Sprintf("type1-diagnostic-disagrees-with-parser-error-list:published=%v", has1), src,
					map[string]interface{}{"text": src, "parser_error_list_empty": ok, "type1_published": has1, "diagnostics": s.Diags["f.lua"]})
			}
			// after didOpen + full didChange the unsaved buffer must show the same verdict
			if i%5 == 0 {
				s.Open("f.lua", src)
				s.ChangeFull("f.lua", src+" ")
				r.Transitions += 2
				has1 = false
				for _, d := range s.Diags["f.lua"] {
					if d.Type == 1 {
						has1 = true
					}
				}
				if has1 == ok {
					r.Fail("server-binding", i, fmt.Sprintf("type1-diagnostic-after-didChange-disagrees:published=%v", has1), src+"|change",
						map[string]interface{}{"text": src, "parser_error_list_empty": ok, "type1_published": has1})
				}
			}
		},
	}
}

func init() {
	core.Register(&core.Check{
		ID:        "C03",
		Technique: "bounded-exhaustive input enumeration (all token strings up to a length, all grammar-directed programs with all single-token mutants, all small lexical forms, all trivia assignments) against an independent reference recogniser",
		Rule: "each case is a source text; the real parser (parser.CreateParser(...).BeginAnalyze error list) must report >=1 syntax error iff the reference recogniser (internal/luaref, written from the Lua manual) rejects the text; " +
			"texts whose validity differs between Lua 5.3, 5.4 and LuaJIT, or depends on compile-time rules the grammar does not express (break outside loop, goto labels, '...' outside vararg, unknown attribute), are counted as dont_care and not judged. " +
			"non-trivial = texts the reference accepts (valid programs)",
		Assumptions: []string{
			"internal/luaref is a faithful recogniser of the Lua 5.3/5.4 grammar + LuaJIT LL/ULL (cross-checked by its own grammar tests)",
			"'a syntax diagnostic (type 1) is published' is bound to 'BeginAnalyze returns a non-empty error list' by the server-level stride in the C03 server space",
		},
		Flavour: "prod",
		Spaces: func(tier string) []*core.Space {
			all := append(append([]string{}, c03Tokens...), c03Extra...)
			sp := []*core.Space{}
			if tier == "thorough" {
				sp = append(sp, c03TokSeqSpace("token-strings<=4", all, 4, 100000))
			} else {
				sp = append(sp, c03TokSeqSpace("token-strings<=3", all, 3, 20000))
			}
			sp = append(sp, c03MutantSpace(tier))
			if tier == "thorough" {
				sp = append(sp, c03ContextSpace(4))
			} else {
				sp = append(sp, c03ContextSpace(3))
			}
			nl, sl, ll := 5, 4, 5
			if tier == "thorough" {
				nl, sl, ll = 6, 5, 6
			}
			sp = append(sp,
				c03StringSpace("numerals", strings.Split("0 1 9 a e f x p . + - l u L _", " "), nl, "x=", ""),
				c03StringSpace("short-strings", []string{"a", `"`, "'", `\`, "n", "z", "x", "0", "9", "\n", "\r", "u", "{", "}"}, sl, `x="`, `"`),
				c03StringSpace("long-brackets", []string{"[", "]", "=", "-", "a", "\n"}, ll, "x=", ""),
				c03StringSpace("comments", []string{"[", "]", "=", "-", "a", "\n"}, ll, "--", "\nx=1"),
				c03TriviaSpace(tier),
				c03ServerSpace(tier),
			)
			return sp
		},
	})
}
