package checks

import (
	"context"
	"encoding/json"
	"fmt"
	"os"
	"path/filepath"
	"sync"
	"time"

	"github.com/yinfei8/jrpc2"
	"github.com/yinfei8/jrpc2/channel"
	"github.com/yinfei8/jrpc2/handler"

	"verif/internal/core"
)

// Replay of the TLC behaviours of tla/Dispatch.tla against the real jrpc2.Server (DESIGN.md Appendix A).

type tlaTrace struct {
	Kind   []string        `json:"kind"`
	Events [][]interface{} `json:"events"`
}

type tlaFile struct {
	N      int        `json:"N"`
	States int        `json:"tlc_distinct_states"`
	Traces []tlaTrace `json:"traces"`
}

func loadTLATraces(n int) *tlaFile {
	b, err := os.ReadFile(filepath.Join(core.VerifDir, ".build", "tla", fmt.Sprintf("traces%d.json", n)))
	if err != nil {
		return nil
	}
	var f tlaFile
	if json.Unmarshal(b, &f) != nil {
		return nil
	}
	return &f
}

type dispLog struct {
	mu       sync.Mutex
	started  map[int]bool
	finished map[int]bool
	viol     []string
	startCh  chan int
	finCh    chan int
	gates    map[int]chan struct{}
	kind     []string
}

func (d *dispLog) handle(id int) {
	d.mu.Lock()
	// safety obligation of the model, evaluated at the actual start: every earlier notification has finished
	for j := 1; j < id; j++ {
		if d.kind[j-1] == "ntf" && !d.finished[j] {
			d.viol = append(d.viol, fmt.Sprintf("message %d started before earlier notification %d finished", id, j))
		}
	}
	running := 0
	for m := range d.started {
		if !d.finished[m] {
			running++
		}
	}
	if running >= 4 {
		d.viol = append(d.viol, fmt.Sprintf("message %d started while %d handlers were running (concurrency 4)", id, running))
	}
	d.started[id] = true
	g := d.gates[id]
	d.mu.Unlock()
	d.startCh <- id
	<-g
	d.mu.Lock()
	d.finished[id] = true
	d.mu.Unlock()
	d.finCh <- id
}

// replayDispatch drives one model behaviour against a fresh real server.
func replayDispatch(tr tlaTrace) (violations []string, inconclusive string) {
	d := &dispLog{started: map[int]bool{}, finished: map[int]bool{}, startCh: make(chan int, 16), finCh: make(chan int, 16), gates: map[int]chan struct{}{}, kind: tr.Kind}
	for i := range tr.Kind {
		d.gates[i+1] = make(chan struct{})
	}
	type p struct {
		ID int `json:"id"`
	}
	srv := jrpc2.NewServer(handler.Map{
		"req": handler.New(func(ctx context.Context, v p) (int, error) { d.handle(v.ID); return v.ID, nil }),
		"ntf": handler.New(func(ctx context.Context, v p) error { d.handle(v.ID); return nil }),
	}, &jrpc2.ServerOptions{AllowPush: true, Concurrency: 4})
	cli, sch := channel.Direct()
	srv.Start(sch)
	go func() { // drain responses
		for {
			if _, err := cli.Recv(); err != nil {
				return
			}
		}
	}()
	defer func() {
		for _, g := range d.gates {
			select {
			case <-g:
			default:
				close(g)
			}
		}
		cli.Close()
		srv.Stop()
	}()
	seenStart := map[int]bool{}
	await := func(ch chan int, want int, seen map[int]bool) bool {
		if seen != nil && seen[want] {
			return true
		}
		deadline := time.After(10 * time.Second)
		for {
			select {
			case m := <-ch:
				if seen != nil {
					seen[m] = true
				}
				if m == want {
					return true
				}
			case <-deadline:
				return false
			}
		}
	}
	for _, ev := range tr.Events {
		kind := ev[0].(string)
		m := int(ev[1].(float64))
		switch kind {
		case "A":
			msg := map[string]interface{}{"jsonrpc": "2.0", "method": tr.Kind[m-1], "params": map[string]int{"id": m}}
			if tr.Kind[m-1] == "req" {
				msg["id"] = m
			}
			b, _ := json.Marshal(msg)
			if err := cli.Send(b); err != nil {
				return nil, "send failed: " + err.Error()
			}
		case "S":
			if !await(d.startCh, m, seenStart) {
				return d.viol, fmt.Sprintf("handler %d did not start although the model enables it", m)
			}
		case "F":
			close(d.gates[m])
			if !await(d.finCh, m, nil) {
				return d.viol, fmt.Sprintf("handler %d did not finish", m)
			}
			// the server releases the barrier only after the handler goroutine has returned
			time.Sleep(0)
		}
	}
	d.mu.Lock()
	defer d.mu.Unlock()
	return d.viol, ""
}

func c10DispatchSpace(n int) *core.Space {
	f := loadTLATraces(n)
	if f == nil {
		return &core.Space{Name: fmt.Sprintf("dispatcher-model-replay-N%d(traces-missing)", n), N: 1, Chunk: 1,
			Run: func(i int64, r *core.Result) { r.Count("tlc_trace_file_missing", 1) }}
	}
	return &core.Space{
		Name: fmt.Sprintf("dispatcher-model-replay-N%d", n), N: int64(len(f.Traces)), Chunk: 200,
		Describe: func(i int64) interface{} { return f.Traces[i] },
		Run: func(i int64, r *core.Result) {
			tr := f.Traces[i]
			viol, inc := replayDispatch(tr)
			r.Evaluated++
			r.Validated++
			r.Transitions += int64(len(tr.Events))
			if inc != "" {
				r.Count("replay_inconclusive:"+inc[:20], 1)
			}
			if len(viol) > 0 {
				sig := "real-dispatcher-violates-model-safety"
				b, _ := json.Marshal(tr)
				r.Fail("dispatch", i, sig, string(b), map[string]interface{}{"trace": tr, "violations": viol})
			}
			if i%97 == 0 {
				r.Sample(map[string]interface{}{"tlc_behaviour": tr, "replayed_against": "jrpc2.Server(AllowPush, Concurrency 4) with gated stub handlers"})
			}
		},
	}
}
