package checks

import (
	"fmt"
	"os"
	"sort"
	"strings"

	"verif/internal/core"
	"verif/internal/drv"
	"verif/internal/enum"
	"verif/internal/textref"
)

// Analysed-text histories: the accessor comparison of the other spaces decides what the cache holds; this space decides
// what is *analysed*. Buffers are sequences of global assignments, so the document outline is a faithful projection
// of the analysed text: it must list exactly the globals of the client's buffer after every notification.

var c02aLines = []string{"g1 = 1\n", "g2 = 1\n"}

func c02aTexts() []string {
	return []string{"", c02aLines[0], c02aLines[1], c02aLines[0] + c02aLines[1]}
}

func c02aGlobals(text string) []string {
	var out []string
	seen := map[string]bool{}
	for _, l := range strings.Split(text, "\n") {
		if i := strings.Index(l, " = "); i > 0 && !seen[l[:i]] {
			seen[l[:i]] = true
			out = append(out, l[:i])
		}
	}
	sort.Strings(out)
	return out
}

// events of a state: whole-line edits keep every buffer valid Lua.
func c02aEvents(s c02State) []c02Event {
	var evs []c02Event
	if !s.open {
		for _, t := range c02aTexts() {
			evs = append(evs, c02Event{Kind: "open", Text: t})
		}
		return evs
	}
	nl := strings.Count(s.text, "\n")
	for i := 0; i <= nl; i++ {
		evs = append(evs, c02Event{Kind: "inc", Ed: []c02Edit{{S: textref.Pos{Line: i}, E: textref.Pos{Line: i}, Ins: "g3 = 1\n"}}})
	}
	for i := 0; i < nl; i++ {
		evs = append(evs, c02Event{Kind: "inc", Ed: []c02Edit{{S: textref.Pos{Line: i}, E: textref.Pos{Line: i + 1}, Ins: ""}}})
	}
	if nl > 0 {
		// rename the first global in place: g? -> h?
		evs = append(evs, c02Event{Kind: "inc", Ed: []c02Edit{{S: textref.Pos{Line: 0}, E: textref.Pos{Line: 0, Char: 1}, Ins: "h"}}})
	}
	for _, t := range c02aTexts() {
		if t != s.text {
			evs = append(evs, c02Event{Kind: "full", Text: t})
		}
	}
	// a settings change in the middle of an editing session (the second one is the first the server acts on) must not
	// disturb the open document
	evs = append(evs, c02Event{Kind: "save", Text: s.text}, c02Event{Kind: "close"}, c02Event{Kind: "config"})
	return evs
}

func c02aHistories(depth int) [][]c02Event {
	var out [][]c02Event
	var rec func(s c02State, h []c02Event)
	rec = func(s c02State, h []c02Event) {
		if len(h) > 0 {
			out = append(out, append([]c02Event{}, h...))
		}
		if len(h) == depth {
			return
		}
		for _, e := range c02aEvents(s) {
			n, ok := refStep(s, e)
			if !ok {
				continue
			}
			rec(n, append(h, e))
		}
	}
	rec(c02State{}, nil)
	return out
}


func c02AnalysedSpace(depth int) *core.Space {
	hs := c02aHistories(depth)
	desc := func(i int64) interface{} {
		var p []string
		for _, x := range hs[i] {
			p = append(p, x.String())
		}
		return map[string]interface{}{"saved_file": c02DiskText, "history": p}
	}
	name := "analysed-text-histories"
	return &core.Space{
		Name: name, N: int64(len(hs)), Chunk: 200, Describe: desc, RecycleEvery: 40, PerCaseTimeoutS: 30,
		Run: func(i int64, r *core.Result) {
			// a fresh server per history: what the server does on a save depends on whether it has kept the text of an
			// earlier save, so histories must not inherit one another's state
			if c02Srv != nil {
				c02Srv.Close()
				c02Srv = nil
			}
			root0 := drv.NewWorkspace(map[string]string{"a.lua": c02DiskText})
			defer drv.RemoveWorkspace(root0)
			srv, err0 := drv.Start(root0, drv.Options{})
			if err0 != nil {
				r.Fail("analysed-text-histories", i, "server-start-failed", fmt.Sprint(i), map[string]interface{}{"error": err0.Error()})
				return
			}
			defer srv.Close()
			hist := hs[i]
			r.Evaluated++
			r.Nontrivial++
			disk := c02DiskText
			cur := c02State{}
			defer func() {
				// back to the initial state: document closed, saved file restored
				if _, open := langserverCached(srv, "a.lua"); open {
					srv.CloseDoc("a.lua")
				}
				if disk != c02DiskText {
					os.WriteFile(srv.Root+"/a.lua", []byte(c02DiskText), 0o644)
					srv.Watched([]drv.FileEvent{{Rel: "a.lua", Type: 2}})
				}
				srv.Barrier()
			}()
			var trace []string
			for step, ev := range hist {
				next, _ := refStep(cur, ev)
				if ev.Kind == "save" {
					// a client writes the file, then notifies
					os.WriteFile(srv.Root+"/a.lua", []byte(ev.Text), 0o644)
					disk = ev.Text
				}
				if err := c02Send(srv, ev); err != nil {
					r.Fail(name, i, "transport-error", core.HashCase("", fmt.Sprint(desc(i))), map[string]interface{}{"error": err.Error(), "case": desc(i)})
					return
				}
				r.Transitions++
				cur = next
				want := c02aGlobals(disk)
				if cur.open {
					want = c02aGlobals(cur.text)
				}
				syms, err := srv.DocSymbols("a.lua")
				r.Transitions++
				if err != nil {
					continue
				}
				var got []string
				gseen := map[string]bool{}
				for _, sy := range syms {
					if !gseen[sy.Name] {
						gseen[sy.Name] = true
						got = append(got, sy.Name)
					}
				}
				sort.Strings(got)
				trace = append(trace, fmt.Sprintf("%s -> outline %v", ev.String(), got))
				if ev.Kind == "config" {
					// a settings change is outside the sequences the property quantifies over: what the server analyses right
					// after it is not judged (it rebuilds the project from the saved files); the notifications that follow are
					continue
				}
				if strings.Join(got, ",") != strings.Join(want, ",") {
					if step < len(hist)-1 {
						// the shorter history is itself a case and is reported there; a stale outline right after didOpen
						// does not end the history: what the next notifications make of it is judged on its own
						r.Count("prefix_already_failing", 1)
						if ev.Kind == "open" {
							continue
						}
						return
					}
					what := "the-buffer"
					if !cur.open {
						what = "the-saved-file-after-close"
					}
					from := "something-else"
					switch strings.Join(got, ",") {
					case strings.Join(c02aGlobals(disk), ","):
						from = "the-saved-file"
					}
					sig := fmt.Sprintf("outline-is-not-that-of-%s:after-%s:shows-%s", what, ev.Kind, from)
					r.Outcome(sig)
					r.Fail(name, i, sig, core.HashCase("", fmt.Sprint(desc(i))), map[string]interface{}{"case": desc(i), "trace": trace, "expected_outline": want, "outline": got})
					return
				}
			}
			r.States++
			r.Outcome("outline-follows-the-buffer")
			if i%997 == 0 {
				r.Sample(map[string]interface{}{"case": desc(i), "trace": trace})
			}
		},
	}
}

func langserverCached(s *drv.Server, rel string) (string, bool) {
	return c02Cached(s)
}

// Handler-level batches: one didChange carrying two entries, each a range edit or a full-text replacement, through the
// real TextDocumentDidChange (the pure-batch2 space only drives FileMapCache.ApplyContentChanges with range edits).
type c02Entry struct {
	full bool
	text string
	ed   c02Edit
}

func (e c02Entry) String() string {
	if e.full {
		return fmt.Sprintf("full(%q)", e.text)
	}
	return fmt.Sprintf("%d:%d-%d:%d%q", e.ed.S.Line, e.ed.S.Char, e.ed.E.Line, e.ed.E.Char, e.ed.Ins)
}

func c02Entries(text string, fulls []string) []c02Entry {
	var out []c02Entry
	for _, e := range c02Edits(text, false) {
		out = append(out, c02Entry{ed: e})
	}
	for _, t := range fulls {
		out = append(out, c02Entry{full: true, text: t})
	}
	return out
}

func (e c02Entry) apply(text string) (string, bool) {
	if e.full {
		return e.text, true
	}
	return textref.Apply(text, e.ed.S, e.ed.E, e.ed.Ins)
}


func c02HandlerBatchSpace(docs []string) *core.Space {
	type first struct {
		d  string
		e1 c02Entry
		t1 string
	}
	var firsts []first
	cum := []int64{0}
	for _, d := range docs {
		for _, e1 := range c02Entries(d, docs) {
			t1, ok := e1.apply(d)
			if !ok {
				continue
			}
			firsts = append(firsts, first{d, e1, t1})
			cum = append(cum, cum[len(cum)-1]+int64(len(c02Entries(t1, docs))))
		}
	}
	at := func(i int64) (string, c02Entry, c02Entry, string) {
		k := enum.Locate(cum, i)
		f := firsts[k]
		return f.d, f.e1, c02Entries(f.t1, docs)[i-cum[k]], f.t1
	}
	name := "handler-batch2"
	return &core.Space{
		Name: name, N: cum[len(cum)-1], Chunk: 2000, RecycleEvery: 50,
		Describe: func(i int64) interface{} {
			d, e1, e2, _ := at(i)
			return map[string]interface{}{"text": d, "didChange_entries": []string{e1.String(), e2.String()}}
		},
		Setup: func() {
			c02SharedServer()
		},
		Run: func(i int64, r *core.Result) {
			d, e1, e2, t1 := at(i)
			srv := c02Srv
			r.Evaluated++
			want, ok := e2.apply(t1)
			if !ok {
				return
			}
			r.Nontrivial++
			if _, open := c02Cached(srv); open {
				srv.CloseDoc("a.lua")
			}
			srv.Open("a.lua", d)
			mk := func(e c02Entry) drv.Change {
				if e.full {
					return drv.Change{Text: e.text}
				}
				return drv.Change{Range: &drv.Range{Start: drv.Pos{Line: e.ed.S.Line, Character: e.ed.S.Char}, End: drv.Pos{Line: e.ed.E.Line, Character: e.ed.E.Char}}, Text: e.ed.Ins}
			}
			if err := srv.ChangeBatch("a.lua", []drv.Change{mk(e1), mk(e2)}); err != nil {
				r.Fail(name, i, "transport-error", fmt.Sprintf("%q|%v|%v", d, e1, e2), map[string]interface{}{"error": err.Error()})
				return
			}
			r.Transitions += 2
			got, open := c02Cached(srv)
			kinds := func(e c02Entry) string {
				if e.full {
					return "full"
				}
				return "range"
			}
			if !open || got != want {
				sig := fmt.Sprintf("batch-through-handler:text-mismatch:%s-then-%s", kinds(e1), kinds(e2))
				r.Outcome(sig)
				r.Fail(name, i, sig, fmt.Sprintf("%q|%v|%v", d, e1, e2), map[string]interface{}{"text": d, "entries": []string{e1.String(), e2.String()}, "expected": want, "server": got, "open": open})
				return
			}
			r.States++
			r.Outcome("batch-applied:" + kinds(e1) + "-then-" + kinds(e2))
		},
	}
}

// C02Debug replays one analysed-text history given as words (`vcheck c02 'open:g1 = 1\n' 'full:' save close ...`) and
// prints the outline after every event. Maintainer tool.
func C02Debug(args []string) {
	root := drv.NewWorkspace(map[string]string{"a.lua": c02DiskText})
	defer drv.RemoveWorkspace(root)
	s, err := drv.Start(root, drv.Options{})
	if err != nil {
		fmt.Println(err)
		return
	}
	defer s.Close()
	cur := c02State{}
	for _, w := range args {
		kind, arg := w, ""
		if k := strings.Index(w, ":"); k >= 0 {
			kind, arg = w[:k], strings.ReplaceAll(w[k+1:], `\n`, "\n")
		}
		ev := c02Event{Kind: kind, Text: arg}
		if kind == "save" {
			ev.Text = cur.text
			os.WriteFile(root+"/a.lua", []byte(ev.Text), 0o644)
		}
		if kind == "ins" {
			// ins:<line>:<text>
			var ln int
			parts := strings.SplitN(arg, ":", 2)
			fmt.Sscan(parts[0], &ln)
			ev = c02Event{Kind: "inc", Ed: []c02Edit{{S: textref.Pos{Line: ln}, E: textref.Pos{Line: ln}, Ins: parts[1]}}}
		}
		next, _ := refStep(cur, ev)
		c02Send(s, ev)
		cur = next
		syms, _ := s.DocSymbols("a.lua")
		var got []string
		for _, sy := range syms {
			got = append(got, sy.Name)
		}
		fmt.Printf("%-30q buffer=%q outline=%v\n", w, cur.text, got)
	}
}
