package checks

import (
	"fmt"
	"os"
	"sort"
	"strings"

	"verif/internal/core"
	"verif/internal/drv"
	"verif/internal/textref"
)

// Analysed-text histories: the accessor comparison of the other spaces decides what the cache holds; this space decides
// what is *analysed*. Buffers are sequences of global assignments, so the document outline is a faithful projection
// of the analysed text: it must list exactly the globals of the client's buffer after every notification.

var c02aLines = []string{"g1 = 1\n", "g2 = 1\n"}

func c02aTexts() []string {
	return []string{"", c02aLines[0], c02aLines[1], c02aLines[0] + c02aLines[1]}
}

func c02aGlobals(text string) []string {
	var out []string
	seen := map[string]bool{}
	for _, l := range strings.Split(text, "\n") {
		if i := strings.Index(l, " = "); i > 0 && !seen[l[:i]] {
			seen[l[:i]] = true
			out = append(out, l[:i])
		}
	}
	sort.Strings(out)
	return out
}

// events of a state: whole-line edits keep every buffer valid Lua.
func c02aEvents(s c02State) []c02Event {
	var evs []c02Event
	if !s.open {
		for _, t := range c02aTexts() {
			evs = append(evs, c02Event{Kind: "open", Text: t})
		}
		return evs
	}
	nl := strings.Count(s.text, "\n")
	for i := 0; i <= nl; i++ {
		evs = append(evs, c02Event{Kind: "inc", Ed: []c02Edit{{S: textref.Pos{Line: i}, E: textref.Pos{Line: i}, Ins: "g3 = 1\n"}}})
	}
	for i := 0; i < nl; i++ {
		evs = append(evs, c02Event{Kind: "inc", Ed: []c02Edit{{S: textref.Pos{Line: i}, E: textref.Pos{Line: i + 1}, Ins: ""}}})
	}
	if nl > 0 {
		// rename the first global in place: g? -> h?
		evs = append(evs, c02Event{Kind: "inc", Ed: []c02Edit{{S: textref.Pos{Line: 0}, E: textref.Pos{Line: 0, Char: 1}, Ins: "h"}}})
	}
	for _, t := range c02aTexts() {
		if t != s.text {
			evs = append(evs, c02Event{Kind: "full", Text: t})
		}
	}
	evs = append(evs, c02Event{Kind: "save", Text: s.text}, c02Event{Kind: "close"})
	return evs
}

func c02aHistories(depth int) [][]c02Event {
	var out [][]c02Event
	var rec func(s c02State, h []c02Event)
	rec = func(s c02State, h []c02Event) {
		if len(h) > 0 {
			out = append(out, append([]c02Event{}, h...))
		}
		if len(h) == depth {
			return
		}
		for _, e := range c02aEvents(s) {
			n, ok := refStep(s, e)
			if !ok {
				continue
			}
			rec(n, append(h, e))
		}
	}
	rec(c02State{}, nil)
	return out
}

var c02aSrv *drv.Server

func c02AnalysedSpace(depth int) *core.Space {
	hs := c02aHistories(depth)
	desc := func(i int64) interface{} {
		var p []string
		for _, x := range hs[i] {
			p = append(p, x.String())
		}
		return map[string]interface{}{"saved_file": c02DiskText, "history": p}
	}
	name := "analysed-text-histories"
	return &core.Space{
		Name: name, N: int64(len(hs)), Chunk: 200, Describe: desc, RecycleEvery: 40, PerCaseTimeoutS: 30,
		Setup: func() {
			if c02aSrv == nil {
				root := drv.NewWorkspace(map[string]string{"a.lua": c02DiskText})
				s, err := drv.Start(root, drv.Options{})
				if err != nil {
					panic(err)
				}
				c02aSrv = s
			}
		},
		Run: func(i int64, r *core.Result) {
			srv := c02aSrv
			hist := hs[i]
			r.Evaluated++
			r.Nontrivial++
			disk := c02DiskText
			cur := c02State{}
			defer func() {
				// back to the initial state: document closed, saved file restored
				if _, open := langserverCached(srv, "a.lua"); open {
					srv.CloseDoc("a.lua")
				}
				if disk != c02DiskText {
					os.WriteFile(srv.Root+"/a.lua", []byte(c02DiskText), 0o644)
					srv.Watched([]drv.FileEvent{{Rel: "a.lua", Type: 2}})
				}
				srv.Barrier()
			}()
			var trace []string
			for step, ev := range hist {
				next, _ := refStep(cur, ev)
				if ev.Kind == "save" {
					// a client writes the file, then notifies
					os.WriteFile(srv.Root+"/a.lua", []byte(ev.Text), 0o644)
					disk = ev.Text
				}
				if err := c02Send(srv, ev); err != nil {
					r.Fail(name, i, "transport-error", core.HashCase("", fmt.Sprint(desc(i))), map[string]interface{}{"error": err.Error(), "case": desc(i)})
					return
				}
				r.Transitions++
				cur = next
				want := c02aGlobals(disk)
				if cur.open {
					want = c02aGlobals(cur.text)
				}
				syms, err := srv.DocSymbols("a.lua")
				r.Transitions++
				if err != nil {
					continue
				}
				var got []string
				gseen := map[string]bool{}
				for _, sy := range syms {
					if !gseen[sy.Name] {
						gseen[sy.Name] = true
						got = append(got, sy.Name)
					}
				}
				sort.Strings(got)
				trace = append(trace, fmt.Sprintf("%s -> outline %v", ev.String(), got))
				if strings.Join(got, ",") != strings.Join(want, ",") {
					if step < len(hist)-1 {
						// the shorter history is itself a case and is reported there; a stale outline right after didOpen
						// does not end the history: what the next notifications make of it is judged on its own
						r.Count("prefix_already_failing", 1)
						if ev.Kind == "open" {
							continue
						}
						return
					}
					what := "the-buffer"
					if !cur.open {
						what = "the-saved-file-after-close"
					}
					from := "something-else"
					switch strings.Join(got, ",") {
					case strings.Join(c02aGlobals(disk), ","):
						from = "the-saved-file"
					}
					sig := fmt.Sprintf("outline-is-not-that-of-%s:after-%s:shows-%s", what, ev.Kind, from)
					r.Outcome(sig)
					r.Fail(name, i, sig, core.HashCase("", fmt.Sprint(desc(i))), map[string]interface{}{"case": desc(i), "trace": trace, "expected_outline": want, "outline": got})
					return
				}
			}
			r.States++
			r.Outcome("outline-follows-the-buffer")
			if i%997 == 0 {
				r.Sample(map[string]interface{}{"case": desc(i), "trace": trace})
			}
		},
	}
}

func langserverCached(s *drv.Server, rel string) (string, bool) {
	return c02Cached(s)
}
