package checks

import (
	"fmt"
	"sort"
	"strings"

	"verif/internal/core"
)

// luahelper.json only: the types 26-29 (and the enum check in particular) have no client flag, so the flag spaces
// never see them. Here the all-types run under luahelper.json (ShowWarnFlag 1, the opt-in types opened) is the
// baseline, and every single ignored type and every pair containing the annotation type 18 must remove exactly the
// diagnostics of the named types.

var c17JSONBase []c17Diag

func c17JSONFiles() map[string]string {
	f := map[string]string{}
	for k, v := range c17Files {
		f[k] = v
	}
	f["enumfile.lua"] = "---@enum start\nea = 1\neb = 1\n---@enum end\n---@type\nlocal broken = ea\nprint(broken, eb)\n"
	return f
}

func c17JSONRun(ignore []int) ([]c17Diag, error) {
	old := c17Files
	c17Files = c17JSONFiles()
	defer func() { c17Files = old }()
	all := make([]bool, 26)
	for i := range all {
		all[i] = true
	}
	if ignore == nil {
		ignore = []int{}
	}
	return c17Run("luahelper.json", all, map[string]interface{}{"ShowWarnFlag": 1, "IgnoreErrorTypes": ignore, "OpenErrorTypes": []int{22, 23, 24, 25, 26, 27, 28, 29}})
}

func c17JSONSpace() *core.Space {
	var sets [][]int
	for t := 1; t <= 29; t++ {
		sets = append(sets, []int{t})
	}
	for t := 1; t <= 29; t++ {
		if t != 18 {
			sets = append(sets, []int{18, t})
		}
	}
	name := "luahelper.json-ignored-types-incl-those-without-a-client-flag"
	return &core.Space{
		Name: name, N: int64(len(sets)), Chunk: 8, RecycleEvery: 20,
		Describe: func(i int64) interface{} { return map[string]interface{}{"IgnoreErrorTypes": sets[i]} },
		Run: func(i int64, r *core.Result) {
			r.Evaluated++
			if c17JSONBase == nil {
				b, err := c17JSONRun(nil)
				if err != nil {
					r.Fail(name, i, "baseline-server-start-failed", "", map[string]interface{}{"error": err.Error()})
					return
				}
				c17JSONBase = b
			}
			ign := map[int]bool{}
			for _, t := range sets[i] {
				ign[t] = true
			}
			want := c17Filter(c17JSONBase, func(d c17Diag) bool { return !ign[d.Type] })
			got, err := c17JSONRun(sets[i])
			r.Transitions += 2
			r.States++
			if len(want) != len(c17JSONBase) {
				r.Nontrivial++
			}
			if err != nil {
				r.Fail(name, i, "server-refused-valid-configuration", fmt.Sprint(sets[i]), map[string]interface{}{"error": err.Error()})
				return
			}
			if c17Keys(got) == c17Keys(want) {
				r.Outcome("equals-filtered-baseline")
				return
			}
			diff := map[string]bool{}
			gm, wm := map[string]int{}, map[string]int{}
			for _, d := range got {
				gm[d.File+":"+d.Key()] = d.Type
			}
			for _, d := range want {
				wm[d.File+":"+d.Key()] = d.Type
			}
			for k, t := range gm {
				if _, ok := wm[k]; !ok {
					diff[fmt.Sprintf("extra-type%d", t)] = true
				}
			}
			for k, t := range wm {
				if _, ok := gm[k]; !ok {
					diff[fmt.Sprintf("missing-type%d", t)] = true
				}
			}
			var ds []string
			for k := range diff {
				ds = append(ds, k)
			}
			sort.Strings(ds)
			sig := "ignored-types-not-a-filter-of-the-all-types-run:luahelper.json"
			coreS := fmt.Sprintf("%s | ignore %v | %s", sig, sets[i], strings.Join(ds, ","))
			r.Outcome(sig)
			r.Fail(name, i, sig, coreS, map[string]interface{}{"failure_core": coreS, "IgnoreErrorTypes": sets[i], "difference": ds, "expected": c17Keys(want), "shown": c17Keys(got)})
		},
	}
}
