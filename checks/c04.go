package checks

import (
	"fmt"
	"regexp"
	"strings"

	"verif/internal/core"
	"verif/internal/drv"
	"verif/internal/luaref"
	"verif/internal/textref"
)

// C04: every reported range lies in the document and covers exactly the thing it names.

var c04Prefixes = []string{"", "\t", `s = "a\n" ;`, `s = 'é' ;`, `s = "😀" ;`, `s = [[x]] ;`, "s = [==[\n]==] ;", `--[[c]]`, `f("\\") ;`, `s = "\x41\65" ;`, `--[[中]]`, `s = "中文" ;`}

type c04Kind struct {
	name  string
	above []string // lines needed before
	stmt  string   // the statement containing identifier abc
	below []string
}

var c04Kinds = []c04Kind{
	{"local-declaration", nil, "local abc = 1", []string{"print(abc)"}},
	{"use", []string{"local abc = 1"}, "print(abc)", nil},
	{"assignment-target", []string{"local abc = 1"}, "abc = 2", []string{"print(abc)"}},
	{"parameter", nil, "local function fn(abc) return abc end", []string{"fn(1)"}},
	{"function-name-dot", []string{"t = {}"}, "function t.abc() end", []string{"t.abc()"}},
	{"function-name-colon", []string{"t = {}"}, "function t:abc() end", []string{"t:abc()"}},
	{"global-definition", nil, "abc = 1", []string{"print(abc)"}},
	{"table-key", nil, "t = {abc = 1}", []string{"print(t.abc)"}},
	{"second-name-of-local-list", nil, "local first, abc = 1, 2", []string{"print(first, abc)"}},
	{"local-list-with-attributes", nil, "local first <const>, abc <const> = 1, 2", []string{"print(first, abc)"}},
	{"second-parameter", nil, "local function fn(first, abc) return first, abc end", []string{"fn(1, 2)"}},
	{"generic-for-second-variable", []string{"local t = {}"}, "for first, abc in pairs(t) do print(first, abc) end", nil},
	{"expression-after-string", []string{"local abc = 1"}, `x = "a\n" .. abc`, nil},
	{"expression-after-astral-string", []string{"local abc = 1"}, `x = "😀" .. abc .. 'é'`, nil},
}

var c04Aboves = [][]string{nil, {""}, {"-- 中文注释 😀"}, {"s0 = [[", "long", "]]"}}
var c04EOLs = []struct{ name, s string }{{"LF", "\n"}, {"CRLF", "\r\n"}, {"CR", "\r"}}

type c04Doc struct {
	text string
	desc string
}

func c04Build(p1, p2 int, k c04Kind, above []string, eol string) string {
	var lines []string
	lines = append(lines, above...)
	lines = append(lines, k.above...)
	pre := c04Prefixes[p1]
	if p2 >= 0 {
		pre += " " + c04Prefixes[p2]
	}
	l := strings.TrimLeft(pre+" "+k.stmt, " ")
	// a prefix may itself contain a line break (long string): it stays a physical LF replaced by the chosen EOL below
	lines = append(lines, l)
	lines = append(lines, k.below...)
	text := strings.Join(lines, "\n") + "\n"
	return strings.ReplaceAll(text, "\n", eol)
}

var reUndef = regexp.MustCompile(`^var not define: (\w+)`)
var reUnused = regexp.MustCompile(`^(\w+) declared and not used`)

func c04Space(tier string) *core.Space {
	np := len(c04Prefixes)
	two := 0
	if tier == "thorough" {
		two = np
	}
	perPrefix := np + np*two // single prefixes, plus pairs in thorough
	n := int64(perPrefix * len(c04Kinds) * len(c04Aboves) * len(c04EOLs))
	decode := func(i int64) (p1, p2 int, k c04Kind, ab []string, eol int) {
		eol = int(i % int64(len(c04EOLs)))
		i /= int64(len(c04EOLs))
		ab = c04Aboves[i%int64(len(c04Aboves))]
		i /= int64(len(c04Aboves))
		k = c04Kinds[i%int64(len(c04Kinds))]
		i /= int64(len(c04Kinds))
		if int(i) < np {
			return int(i), -1, k, ab, eol
		}
		j := int(i) - np
		return j / np, j % np, k, ab, eol
	}
	return &core.Space{
		Name: "prefix-x-occurrence-x-line-ending-x-lines-above", N: n, Chunk: 100, RecycleEvery: 30,
		Describe: func(i int64) interface{} {
			p1, p2, k, ab, e := decode(i)
			return map[string]interface{}{"m.lua": c04Build(p1, p2, k, ab, c04EOLs[e].s), "occurrence": k.name, "eol": c04EOLs[e].name}
		},
		Run: func(i int64, r *core.Result) {
			p1, p2, k, ab, e := decode(i)
			text := c04Build(p1, p2, k, ab, c04EOLs[e].s)
			r.Evaluated++
			lx := luaref.Lex(text)
			if lx.Err != nil || luaref.Parse(text).Err != nil {
				r.Count("generated_text_not_valid_lua_skipped", 1)
				return
			}
			root := drv.NewWorkspace(map[string]string{"m.lua": text})
			defer drv.RemoveWorkspace(root)
			s, err := drv.Start(root, drv.Options{InitOptions: drv.AllChecks()})
			if err != nil {
				r.Fail("c04", i, "server-start-failed", text, map[string]interface{}{"error": err.Error()})
				return
			}
			defer s.Close()
			s.Open("m.lua", text)
			if p1 > 1 || p2 > 1 {
				r.Nontrivial++
			}
			pre := c04Prefixes[p1]
			if p2 >= 0 {
				pre += " " + c04Prefixes[p2]
			}
			ctx := fmt.Sprintf("prefix %q | %s | eol %s | above %d", pre, k.name, c04EOLs[e].name, len(ab))
			slice := func(rg drv.Range) (string, bool) {
				so, c1, ok1 := textref.Offset(text, textref.Pos{Line: rg.Start.Line, Char: rg.Start.Character})
				eo, c2, ok2 := textref.Offset(text, textref.Pos{Line: rg.End.Line, Char: rg.End.Character})
				if !ok1 || !ok2 || c1 || c2 || so > eo {
					return "", false
				}
				return text[so:eo], true
			}
			judge := func(what string, rg drv.Range, want string) {
				r.States++
				got, ok := slice(rg)
				sig := ""
				if !ok {
					sig = "range-outside-document-or-inverted:" + what
				} else if want != "" && got != want {
					sig = "range-does-not-cover-the-identifier:" + what
				}
				if sig == "" {
					r.Outcome("well-formed:" + what)
					return
				}
				r.Outcome(sig)
				coreS := sig + " | " + ctx
				r.Fail("c04", i, sig, coreS, map[string]interface{}{"failure_core": coreS, "m.lua": text, "request": what, "range": rg.String(), "text_under_range": got, "expected_text": want})
			}
			for _, d := range s.Diags["m.lua"] {
				want := ""
				if m := reUndef.FindStringSubmatch(d.Msg); m != nil && (d.Type == 2 || d.Type == 3) {
					want = m[1]
				}
				if m := reUnused.FindStringSubmatch(d.Msg); m != nil && d.Type == 4 {
					want = m[1]
				}
				judge(fmt.Sprintf("diagnostic-type%d", d.Type), d.Range, want)
			}
			phase := ""
			sweep := func() {
				for _, t := range luaref.Lex(text).Tokens {
					if t.Kind != luaref.Name {
						continue
					}
					tr := rng(text, luaref.Span{Start: t.Start, End: t.End})
					for _, ch := range []int{tr.Start.Character, tr.End.Character} {
						if locs, err := s.Definition("m.lua", tr.Start.Line, ch); err == nil {
							r.Transitions++
							for _, l := range locs {
								if s.Rel(l.URI) == "m.lua" {
									judge("definition"+phase, l.Range, t.Text)
								}
							}
						}
					}
					if locs, err := s.References("m.lua", tr.Start.Line, tr.Start.Character); err == nil {
						r.Transitions++
						for _, l := range locs {
							if s.Rel(l.URI) == "m.lua" {
								judge("references"+phase, l.Range, t.Text)
							}
						}
					}
					if hs, err := s.Highlight("m.lua", tr.Start.Line, tr.Start.Character); err == nil {
						r.Transitions++
						for _, h := range hs {
							judge("highlight"+phase, h.Range, t.Text)
						}
					}
					if eds, err := s.Rename("m.lua", tr.Start.Line, tr.Start.Character, "zz"); err == nil {
						r.Transitions++
						for f, l := range eds {
							if f == "m.lua" {
								for _, ed := range l {
									judge("rename-edit"+phase, ed.Range, t.Text)
								}
							}
						}
					}
				}
			}
			sweep()
			if syms, err := s.DocSymbols("m.lua"); err == nil {
				var flat []drv.DocSymbol
				flattenSyms(syms, &flat)
				for _, f := range flat {
					judge("document-symbol", f.Range, "")
					judge("document-symbol-selection", f.SelectionRange, "")
				}
			}
			for _, q := range []string{"abc", "t", "fn"} {
				if ws, err := s.WsSymbols(q); err == nil {
					for _, w := range ws {
						if s.Rel(w.Location.URI) == "m.lua" {
							judge("workspace-symbol", w.Location.Range, "")
						}
					}
				}
			}
			// the same sweep after an unsaved edit that moves every token one line down: ranges must be those of the buffer
			{
				shifted := "-- typed above" + c04EOLs[e].s + text
				s.ChangeFull("m.lua", shifted)
				text = shifted
				phase = ":after-unsaved-edit"
				sweep()
				phase = ""
			}
			if i%211 == 0 {
				r.Sample(map[string]interface{}{"m.lua": text, "occurrence": k.name, "eol": c04EOLs[e].name})
			}
		},
	}
}

func init() {
	core.Register(&core.Check{
		ID:        "C04",
		Technique: "bounded-exhaustive enumeration of documents (same-line prefixes x occurrence kinds x line endings x lines above) on the real server; every range of every range-returning answer is checked against the client's own text with a reference UTF-16 line table",
		Rule: "documents: 12 same-line prefixes (tab, strings with escapes, 2/3/4-byte characters, long brackets incl. multi-line, block comments) singly (quick) and in all pairs (thorough) x 10 occurrence kinds of identifier abc x {LF, CRLF, CR} x 4 kinds of lines above; " +
			"requests: all diagnostics (all checks on), definition at both ends of every name token, references, highlight and rename at every name token, documentSymbol, workspace/symbol; " +
			"oracle: start <= end, both ends are positions of the client's text (character <= UTF-16 line length), and for definition/references/highlight/rename edits and type 2/3/4 diagnostics the UTF-16 slice under the range is the identifier. states = ranges judged; non-trivial = documents with a non-blank prefix",
		Assumptions: []string{"the client's text and the reference line table (internal/textref: LF, CRLF, CR; UTF-16 units) are the ground truth", "in the single-file space ranges in other files are not judged; the two-file space judges every range in the file it names"},
		Flavour:     "prod+overlay", QuickBudgetS: 120, ThoroughBudgetS: 900,
		Spaces: func(tier string) []*core.Space { return []*core.Space{c04Space(tier), c04MultiSpace(), c04AnnotationSpace()} },
	})
}
