package checks

import (
	"fmt"
	"strings"

	"verif/internal/core"
	"verif/internal/drv"
	"verif/internal/luaref"
)

// Two instances of one pattern on the same source line: "reported once at every place" means two diagnostics there.
// Both copies are textually identical, so their messages are identical too (a merge keyed on type, line and message
// instead of the exact range would collapse them).

var c20TwoCtx = []string{"f(%s, %s)", "t = {%s, %s}", "x = %s; y = %s", "if %s then x = %s end"}

func c20TwoSpace() *core.Space {
	var insts []c20Inst
	for _, in := range c20Instances() {
		if in.expr && len(in.must) > 0 {
			insts = append(insts, in)
		}
	}
	n := int64(len(insts) * len(c20TwoCtx))
	name := "two-instances-on-one-line"
	at := func(i int64) (c20Inst, string, string) {
		in := insts[i/int64(len(c20TwoCtx))]
		ctx := c20TwoCtx[i%int64(len(c20TwoCtx))]
		return in, ctx, fmt.Sprintf(ctx, in.code, in.code) + "\n"
	}
	return &core.Space{
		Name: name, N: n, Chunk: 100, RecycleEvery: 30,
		Describe: func(i int64) interface{} {
			in, _, text := at(i)
			return map[string]interface{}{"m.lua": text, "family": in.family}
		},
		Run: func(i int64, r *core.Result) {
			in, ctx, text := at(i)
			r.Evaluated++
			if luaref.Parse(text).Err != nil {
				r.Count("planted_program_not_valid_skipped", 1)
				return
			}
			r.Nontrivial++
			root := drv.NewWorkspace(map[string]string{"m.lua": text})
			defer drv.RemoveWorkspace(root)
			s, err := drv.Start(root, drv.Options{InitOptions: drv.AllChecks()})
			if err != nil {
				r.Fail(name, i, "server-start-failed", text, map[string]interface{}{"error": err.Error()})
				return
			}
			defer s.Close()
			r.Transitions += 2
			counts := map[int]int{}
			for _, d := range s.Diags["m.lua"] {
				if d.Range.Start.Line == 0 {
					counts[d.Type]++
				}
			}
			for _, t := range c20Types {
				if !in.must[t] {
					continue
				}
				r.States++
				if counts[t] == 2 {
					r.Outcome(fmt.Sprintf("both-reported:type%d", t))
					continue
				}
				sig := fmt.Sprintf("two-instances-on-one-line-reported-%d-times:type%d", counts[t], t)
				r.Outcome(sig)
				coreS := fmt.Sprintf("%s | %s | %s", sig, in.code, strings.ReplaceAll(ctx, "%s", "_"))
				r.Fail(name, i, sig, coreS, map[string]interface{}{"failure_core": coreS, "m.lua": text, "diagnostics": s.Diags["m.lua"]})
			}
		},
	}
}
