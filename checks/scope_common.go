package checks

import (
	"fmt"
	"sort"
	"strings"
	"sync"

	"verif/internal/drv"
	"verif/internal/luaref"
	"verif/internal/progen"
	"verif/internal/textref"
)

// Shared program spaces of the binding properties (C05, C06, C07, C11, C12, C14).

var scopeNames = []string{"a", "b"}

func exprForms() []string {
	es := []string{"1"}
	for _, n := range scopeNames {
		for _, t := range []string{"%N", "%N + 1", "(%N)", "%N.x", "g(%N)", "function() return %N end", "{%N}", "-%N", "%N()", "%N:m()",
			"not %N", "%N == nil", "%N or 1", "{x = %N}", "%N .. \"s\""} {
			es = append(es, strings.ReplaceAll(t, "%N", n))
		}
	}
	return es
}

var e3 = []string{"1", "a", "b"}

var (
	alphaOnce                          sync.Once
	alphaForms, alphaStruct, alphaCore *progen.Alphabet
)

func scopeAlphabets() (forms, structure, core *progen.Alphabet) {
	alphaOnce.Do(func() {
		ef := exprForms()
		simple := progen.Expand([]string{"local %N", "local %N = %E", "%N = %E", "f(%E)"}, scopeNames, ef)
		simple = append(simple, progen.Expand([]string{"local %N, %N = %E, %E", "%N, %N = %E, %E", "%N.x = %E", "%N[%E] = 1", "local %N <const> = %E"}, scopeNames, e3)...)
		h1 := progen.ExpandHeads([]string{"local function %N(%N)||end", "function %N(%N)||end", "function %N:m(%N)||end", "function %N.m(%N)||end",
			"local %N = function(%N)||end", "do||end", "while %E do||end", "repeat||until %E", "if %E then||end"}, scopeNames, ef)
		h1 = append(h1, progen.ExpandHeads([]string{"for %N = %E, %E do||end", "for %N, %N in %E do||end"}, scopeNames, e3)...)
		alphaForms = &progen.Alphabet{
			Simple: simple, Last: progen.Expand([]string{"return %E"}, scopeNames, ef), Heads1: h1,
			Heads2:   progen.ExpandHeads([]string{"if %E then|else|end", "if %N then|elseif %N then|end"}, scopeNames, e3),
			MaxDepth: 1,
		}
		s2 := progen.Expand([]string{"local %N", "local %N = %E", "%N = %E", "f(%E)"}, scopeNames, e3)
		s2 = append(s2, "local a, b = b, a", "local b, a = 1, b")
		alphaStruct = &progen.Alphabet{
			Simple: s2, Last: progen.Expand([]string{"return %E"}, scopeNames, e3),
			Heads1: append(progen.ExpandHeads([]string{"local function %N(%N)||end", "function %N(%N)||end", "local %N = function(%N)||end", "do||end", "while %N do||end", "repeat||until %N",
				"for %N = %N, 2 do||end", "for %N in %N do||end", "if %N then||end"}, scopeNames, e3),
				progen.Head{Open: "for a, b in a do", Close: "end"}, progen.Head{Open: "for a, b in b do", Close: "end"}),
			Heads2:   progen.ExpandHeads([]string{"if %N then|else|end", "if %N then|elseif %N then|end"}, scopeNames, e3),
			MaxDepth: 2,
		}
		alphaCore = &progen.Alphabet{
			Simple: progen.Expand([]string{"local %N = %E", "%N = %N"}, scopeNames, e3),
			Last:   progen.Expand([]string{"return %N"}, scopeNames, e3),
			Heads1: progen.ExpandHeads([]string{"local function %N(%N)||end", "function %N(%N)||end", "do||end", "repeat||until %N",
				"for %N = %N, 2 do||end", "if %N then||end"}, scopeNames, e3),
			MaxDepth: 3,
		}
	})
	return alphaForms, alphaStruct, alphaCore
}

// the second workspace file: defines global b (as a function), never a.
const otherLua = "function b() end\n"

var otherVariants = []map[string]string{
	{"o.lua": otherLua},
	{},
	{"o.lua": "a = 1\n"},
	// the defining file uses its global again: a rename or reference search asked from m.lua must reach these too
	{"o.lua": "function b() end\nprint(b)\nb()\n"},
}

// scopeCase is one program plus its reference analysis.
type scopeCase struct {
	Text  string
	Files map[string]string // all workspace files incl. m.lua
	Parse *luaref.ParseResult
	Bind  *luaref.Binding
	// per other file: global definition / occurrence sites
	Other map[string]*luaref.Binding
}

func newScopeCase(lines []string, other map[string]string) *scopeCase {
	c := &scopeCase{Text: strings.Join(lines, "\n") + "\n", Files: map[string]string{}, Other: map[string]*luaref.Binding{}}
	c.Files["m.lua"] = c.Text
	for k, v := range other {
		c.Files[k] = v
		p := luaref.Parse(v)
		if p.Err == nil {
			c.Other[k] = luaref.Bind(p.Chunk)
		}
	}
	c.Parse = luaref.Parse(c.Text)
	if c.Parse.Err == nil {
		c.Bind = luaref.Bind(c.Parse.Chunk)
	}
	return c
}

// rng converts a byte span of text to an LSP range (UTF-16 aware).
func rng(text string, sp luaref.Span) drv.Range {
	s := textref.PosAt(text, sp.Start)
	e := textref.PosAt(text, sp.End)
	return drv.Range{Start: drv.Pos{Line: s.Line, Character: s.Char}, End: drv.Pos{Line: e.Line, Character: e.Char}}
}

type fileRange struct {
	File  string
	Range drv.Range
}

func (f fileRange) String() string { return f.File + "@" + f.Range.String() }

// globalDefs lists the defining sites of global name in all workspace files.
func (c *scopeCase) globalDefs(name string) []fileRange {
	var out []fileRange
	for _, o := range c.Bind.Occs {
		if o.Decl < 0 && o.Name == name && o.GlobalDef {
			out = append(out, fileRange{"m.lua", rng(c.Text, o.Span)})
		}
	}
	for f, b := range c.Other {
		for _, o := range b.Occs {
			if o.Decl < 0 && o.Name == name && o.GlobalDef {
				out = append(out, fileRange{f, rng(c.Files[f], o.Span)})
			}
		}
	}
	return out
}

// globalOccs lists every occurrence of the global name in all workspace files.
func (c *scopeCase) globalOccs(name string) []fileRange {
	var out []fileRange
	for _, o := range c.Bind.Occs {
		if o.Decl < 0 && o.Name == name {
			out = append(out, fileRange{"m.lua", rng(c.Text, o.Span)})
		}
	}
	for f, b := range c.Other {
		for _, o := range b.Occs {
			if o.Decl < 0 && o.Name == name {
				out = append(out, fileRange{f, rng(c.Files[f], o.Span)})
			}
		}
	}
	return out
}

// localOccs lists the occurrences bound to declaration id (declaration included).
func (c *scopeCase) localOccs(id int) []fileRange {
	var out []fileRange
	for _, o := range c.Bind.Occs {
		if o.Decl == id {
			out = append(out, fileRange{"m.lua", rng(c.Text, o.Span)})
		}
	}
	return out
}

func frSet(xs []fileRange) string {
	var s []string
	seen := map[string]bool{}
	for _, x := range xs {
		k := x.String()
		if !seen[k] {
			seen[k] = true
			s = append(s, k)
		}
	}
	sort.Strings(s)
	return strings.Join(s, " ")
}

func locsToFR(s *drv.Server, locs []drv.Location) []fileRange {
	var out []fileRange
	for _, l := range locs {
		out = append(out, fileRange{s.Rel(l.URI), l.Range})
	}
	return out
}

// start brings up a real server on the case's workspace and opens m.lua.
func (c *scopeCase) start(opts map[string]interface{}) (*drv.Server, string, error) {
	root := drv.NewWorkspace(c.Files)
	s, err := drv.Start(root, drv.Options{InitOptions: opts})
	if err != nil {
		drv.RemoveWorkspace(root)
		return nil, root, err
	}
	if err := s.Open("m.lua", c.Text); err != nil {
		s.Close()
		drv.RemoveWorkspace(root)
		return nil, root, err
	}
	return s, root, nil
}

// stmtContext names the syntactic context of an occurrence for signatures:
// the kind of the innermost statement containing it and the role within it.
func (c *scopeCase) occContext(o luaref.Occ) string {
	var best string
	var walkBlock func(b *luaref.Block)
	in := func(sp luaref.Span) bool { return sp.Start <= o.Start && o.End <= sp.End }
	var walkExpr func(e luaref.Expr)
	walkExpr = func(e luaref.Expr) {
		if f, ok := e.(*luaref.FuncExpr); ok && in(f.Span) {
			best += ">closure"
			walkBlock(f.Body)
		}
		switch x := e.(type) {
		case *luaref.BinExpr:
			walkExpr(x.L)
			walkExpr(x.R)
		case *luaref.UnExpr:
			walkExpr(x.E)
		case *luaref.ParenExpr:
			walkExpr(x.E)
		case *luaref.CallExpr:
			walkExpr(x.Fn)
			for _, a := range x.Args {
				walkExpr(a)
			}
		case *luaref.IndexExpr:
			walkExpr(x.Obj)
			walkExpr(x.Key)
		case *luaref.TableExpr:
			if in(x.Span) {
				best += "[table-constructor]"
			}
			for _, f := range x.Fields {
				if f.Key != nil {
					walkExpr(f.Key)
				}
				walkExpr(f.Val)
			}
		}
	}
	inExprs := func(es []luaref.Expr) bool {
		for _, e := range es {
			if in(luaref.ExprSpan(e)) {
				walkExpr(e)
				return true
			}
		}
		return false
	}
	walkBlock = func(b *luaref.Block) {
		for _, st := range b.Stats {
			switch s := st.(type) {
			case *luaref.LocalStat:
				if in(s.Span) {
					best += ">local"
					if inExprs(s.Exprs) {
						best += ":init"
						// does the initialiser mention a name being declared?
						for _, n := range s.Names {
							if n.Name == o.Name {
								best += "(own-name)"
							}
						}
					} else {
						best += ":name"
					}
				}
			case *luaref.AssignStat:
				if in(s.Span) {
					best += ">assign"
					if inExprs(s.Exprs) {
						best += ":rhs"
					} else {
						best += ":target"
						inExprs(s.Targets)
					}
				}
			case *luaref.CallStat:
				if in(s.Span) {
					best += ">call"
					walkExpr(s.Call)
				}
			case *luaref.DoStat:
				if in(s.Span) {
					best += ">do"
					walkBlock(s.Body)
				}
			case *luaref.WhileStat:
				if in(s.Span) {
					best += ">while"
					if in(luaref.ExprSpan(s.Cond)) {
						best += ":cond"
						walkExpr(s.Cond)
					} else {
						walkBlock(s.Body)
					}
				}
			case *luaref.RepeatStat:
				if in(s.Span) {
					best += ">repeat"
					if in(luaref.ExprSpan(s.Cond)) {
						best += ":until"
						walkExpr(s.Cond)
					} else {
						walkBlock(s.Body)
					}
				}
			case *luaref.IfStat:
				if in(s.Span) {
					best += ">if"
					hit := false
					for i, cnd := range s.Conds {
						if in(luaref.ExprSpan(cnd)) {
							best += ":cond"
							walkExpr(cnd)
							hit = true
						} else if in(s.Blocks[i].Span) {
							walkBlock(s.Blocks[i])
							hit = true
						}
					}
					if !hit && s.Else != nil {
						best += ":else"
						walkBlock(s.Else)
					}
				}
			case *luaref.NumForStat:
				if in(s.Span) {
					best += ">numfor"
					if in(s.Var.Span) {
						best += ":var"
					} else if in(s.Body.Span) {
						walkBlock(s.Body)
					} else {
						best += ":bounds"
						if s.Var.Name == o.Name {
							best += "(own-name)"
						}
					}
				}
			case *luaref.GenForStat:
				if in(s.Span) {
					best += ">genfor"
					if in(s.Body.Span) {
						walkBlock(s.Body)
					} else if inExprs(s.Exprs) {
						best += ":explist"
						for _, n := range s.Names {
							if n.Name == o.Name {
								best += "(own-name)"
							}
						}
					} else {
						best += ":var"
					}
				}
			case *luaref.FuncStat:
				if in(s.Span) {
					best += ">function"
					if in(s.Func.Body.Span) {
						walkBlock(s.Func.Body)
					} else if in(s.Path[0].Span) {
						best += ":name"
					} else {
						best += ":param"
					}
				}
			case *luaref.LocalFuncStat:
				if in(s.Span) {
					best += ">localfunction"
					if in(s.Func.Body.Span) {
						walkBlock(s.Func.Body)
					} else if in(s.Name.Span) {
						best += ":name"
					} else {
						best += ":param"
					}
				}
			case *luaref.ReturnStat:
				if in(s.Span) {
					best += ">return"
					inExprs(s.Exprs)
				}
			}
		}
	}
	walkBlock(c.Parse.Chunk)
	return best
}

// lineAt returns "<statement segment>@<column within the segment>" for a range of a file: the innermost
// simple statement, or the head / closing part of the innermost compound statement, that contains the range.
// It is the local, layout- and surroundings-independent description of an occurrence used in failure cores.
func lineAt(text string, r drv.Range) string {
	p := luaref.Parse(text)
	so, _, ok := textref.Offset(text, textref.Pos{Line: r.Start.Line, Char: r.Start.Character})
	if p.Err != nil || !ok {
		ls := strings.Split(text, "\n")
		if r.Start.Line >= len(ls) {
			return "?"
		}
		l := ls[r.Start.Line]
		c := r.Start.Character
		if c > len(l) {
			c = len(l)
		}
		return strings.Join(strings.Fields(l[:c]+"^"+l[c:]), " ")
	}
	segS, segE := 0, len(text)
	var walk func(b *luaref.Block)
	bodies := func(st luaref.Stat) []*luaref.Block {
		switch s := st.(type) {
		case *luaref.DoStat:
			return []*luaref.Block{s.Body}
		case *luaref.WhileStat:
			return []*luaref.Block{s.Body}
		case *luaref.RepeatStat:
			return []*luaref.Block{s.Body}
		case *luaref.IfStat:
			bs := append([]*luaref.Block{}, s.Blocks...)
			if s.Else != nil {
				bs = append(bs, s.Else)
			}
			return bs
		case *luaref.NumForStat:
			return []*luaref.Block{s.Body}
		case *luaref.GenForStat:
			return []*luaref.Block{s.Body}
		case *luaref.FuncStat:
			return []*luaref.Block{s.Func.Body}
		case *luaref.LocalFuncStat:
			return []*luaref.Block{s.Func.Body}
		case *luaref.LocalStat:
			var bs []*luaref.Block
			for _, e := range s.Exprs {
				if f, ok := e.(*luaref.FuncExpr); ok && len(f.Body.Stats) > 0 {
					bs = append(bs, f.Body)
				}
			}
			return bs
		}
		return nil
	}
	walk = func(b *luaref.Block) {
		for _, st := range b.Stats {
			sp := statSpan(st)
			if so < sp.Start || so >= sp.End {
				continue
			}
			segS, segE = sp.Start, sp.End
			// cut the segment at the bodies: keep the part (head, middle or closing) that holds the offset
			for _, body := range bodies(st) {
				if len(body.Stats) == 0 {
					continue
				}
				if so >= body.Start && so < body.End {
					walk(body)
					return
				}
				if body.End <= so && body.End > segS {
					segS = body.End
				}
				if body.Start > so && body.Start < segE {
					segE = body.Start
				}
			}
			return
		}
	}
	walk(p.Chunk)
	if so > segE {
		segE = so
	}
	return strings.Join(strings.Fields(text[segS:so]+"^"+text[so:segE]), " ")
}

func statSpan(st luaref.Stat) luaref.Span {
	switch s := st.(type) {
	case *luaref.LocalStat:
		return s.Span
	case *luaref.AssignStat:
		return s.Span
	case *luaref.CallStat:
		return s.Span
	case *luaref.DoStat:
		return s.Span
	case *luaref.WhileStat:
		return s.Span
	case *luaref.RepeatStat:
		return s.Span
	case *luaref.IfStat:
		return s.Span
	case *luaref.NumForStat:
		return s.Span
	case *luaref.GenForStat:
		return s.Span
	case *luaref.FuncStat:
		return s.Span
	case *luaref.LocalFuncStat:
		return s.Span
	case *luaref.ReturnStat:
		return s.Span
	case *luaref.BreakStat:
		return s.Span
	case *luaref.GotoStat:
		return s.Span
	case *luaref.LabelStat:
		return s.Span
	case *luaref.EmptyStat:
		return s.Span
	}
	return luaref.Span{}
}

func (c *scopeCase) frLines(xs []fileRange) string {
	var out []string
	for _, x := range xs {
		out = append(out, x.File+":"+lineAt(c.Files[x.File], x.Range))
	}
	sort.Strings(out)
	return strings.Join(out, " ; ")
}

func declKind(c *scopeCase, id int) string {
	if id < 0 {
		return "global"
	}
	return c.Bind.Decls[id].Kind
}

func caseDesc(c *scopeCase) map[string]interface{} {
	return map[string]interface{}{"files": c.Files}
}

var _ = fmt.Sprint

// siblingBlockPrograms: two blocks that start on the same source line, the first declaring a local the second must not
// see, the second declaring a local and reading names (the cursor of C14, the query of C05/C06/C11 lands there). Sibling
// scopes on one line need four or five statement nodes, beyond the node bound of the one-line program spaces.
func siblingBlockPrograms() [][]string {
	first := []string{"do local a = 1 end", "while b do local a = 1 end", "for i = 1, 2 do local a = 1 end", "if b then local a = 1 end",
		"f(function(a) return a end)", "repeat local a = 1 until a"}
	second := []string{"do local b = 2 print(a, b) end", "while b do local b = 2 print(a, b) end", "for b = 1, 2 do print(a, b) end",
		"if b then local b = 2 print(a, b) end", "f(function(b) return a, b end)", "repeat local b = 2 until a == b"}
	var out [][]string
	for _, outer := range []string{"", "local a = 0"} {
		for _, f := range first {
			for _, s2 := range second {
				var lines []string
				if outer != "" {
					lines = append(lines, outer)
				}
				lines = append(lines, f+" "+s2)
				out = append(out, lines)
			}
		}
		// then-block and else-block of one if statement, closures as fields of one table constructor
		var lines []string
		if outer != "" {
			lines = append(lines, outer)
		}
		out = append(out, append(append([]string{}, lines...), "if b then local a = 1 else local b = 2 print(a, b) end"),
			append(append([]string{}, lines...), "if b then return elseif a then local a = 1 else for b = 1, 2 do print(a, b) end end"),
			append(append([]string{}, lines...), "local r = { function(a) return a end, function(b) return a, b end }"))
	}
	// further hand-written shapes outside the statement alphabets (each found worth having by a seeded change)
	out = append(out,
		[]string{"local a, b = 1, 2", "local c = a..b..a", "print(c, a..b..c)"},
		[]string{"local a = 1", "while (function(b) return a and b end)(a) do a = nil end"},
		[]string{"local function a() end", "for b, c in a, a do print(b, c) end", "for b in a do print(b) end", "for b, c in a() do print(c) end"},
		[]string{"local a <const>, b <const> = 1, 2", "print(a, b)"},
		[]string{"local a <close>, b = nil, 2", "print(a, b)"},
		[]string{"local s = [[", "x]]", "local a = 1", "local function f(b)", "  return a, b", "end", "print(a, f)"},
		[]string{"--[==[", "c]==]", "local a = 1", "do", "  local b = a", "  print(a, b)", "end"},
		[]string{"local function a(b) if b then return a(b) end end", "a(1)"},
		[]string{"local a = \"it's\"", "local b = 'say \"' .. a", "print(\"it's\", a, b)"},
		[]string{"local a, b = 1, 2", "local c = a // b + (a << b) + (a ~ b)", "print(c)"},
		[]string{"local a = 1", "goto done", "local b = a", "::done::", "print(a)"},
		scopeTallProgram(),
		[]string{"local a = 0", "local f = a and function(a)", "  return a", "end or function(b)", "  return a, b", "end", "print(f, a)"},
		[]string{"local a = 0", "local b, c, d = a, f()", "print(b, c, d)"},
		[]string{"local a = 1", "if a then local b = 2 else local b = 3 local c = b end"},
		[]string{"local a = 1", "if a then", "  local b = 2", "else", "  local b = 3", "  local c = b", "end"},
	)
	return out
}

// scopeTallProgram: 23 lines with occurrences of one local at (line, column) pairs whose decimal digits concatenate to
// the same string: (1,12)/(11,2), (2,13)/(21,3), (1,12)/(1,12)... - a key built as line followed by column without a
// separator confuses them.
func scopeTallProgram() []string {
	lines := []string{"local a = 0"}
	indent := map[int]int{1: 12, 11: 2, 2: 13, 21: 3, 3: 1, 13: 0, 12: 10, 22: 0}
	for l := 1; l <= 22; l++ {
		lines = append(lines, strings.Repeat(" ", indent[l])+"a = a + 1")
	}
	return lines
}
