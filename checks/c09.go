package checks

import (
	"encoding/json"
	"fmt"
	"os"
	"path/filepath"
	"sort"
	"strings"
	"time"

	"luahelper-lsp/langserver/vrt"

	"verif/internal/core"
	"verif/internal/drv"
	"verif/internal/sched"
)

// C09: results are a function of workspace and configuration, not of scheduling.

type c09Query struct {
	kind string // definition | hover | references | completion | wssymbol | docsymbol
	file string
	line int
	ch   int
	arg  string
}

type c09WS struct {
	name    string
	files   map[string]string
	open    []string
	queries []c09Query
	// events: file events applied after the documents are opened and before the queries
	events func(s *drv.Server)
}

func c09Workspaces() []c09WS {
	return []c09WS{
		{name: "w1-duplicate-global-function",
			files: map[string]string{"a.lua": "function f(x) end\n", "b.lua": "\nfunction f(x, y) end\n", "c.lua": "f(1, 2)\nprint(f)\n"},
			open:  []string{"c.lua"},
			queries: []c09Query{{"definition", "c.lua", 0, 0, ""}, {"hover", "c.lua", 0, 0, ""}, {"references", "c.lua", 0, 0, ""},
				{"completion", "c.lua", 1, 7, ""}, {"completion", "c.lua", 2, 0, ""}, {"wssymbol", "", 0, 0, "f"}}},
		{name: "w2-same-base-name-modules",
			files: map[string]string{"x/m.lua": "local M = {}\nM.inx = 1\nreturn M\n", "y/m.lua": "local M = {}\nM.iny = 1\nreturn M\n",
				"main.lua": "local mod = require(\"m\")\nprint(mod.inx, mod.iny)\n"},
			open: []string{"main.lua"},
			queries: []c09Query{{"definition", "main.lua", 0, 21, ""}, {"hover", "main.lua", 0, 21, ""}, {"definition", "main.lua", 1, 11, ""},
				{"definition", "main.lua", 1, 20, ""}, {"completion", "main.lua", 1, 10, ""}}},
		{name: "w3-files-that-look-at-each-other-in-the-first-pass",
			files: map[string]string{"luahelper.json": `{"ShowWarnFlag":1,"ReferFrameFiles":[{"Name":"import","type":2,"SuffixFlag":1}]}`,
				"a.lua": "local m = import(\"b.lua\")\nprint(m.x, E2)\nlocal n = import(\"c.lua\")\nprint(n)\n", "b.lua": "local M = {x = 1}\nreturn M\n",
				"c.lua": "---@enum start\nE1 = 1\nE2 = E1\nE3 = 1\nE4 = 7 E5 = 7 E6 = 7\n---@enum end\ncglobal = 2\n", "d.lua": "print(E1, cglobal, m)\n"},
			open: []string{"a.lua", "d.lua"},
			queries: []c09Query{{"definition", "a.lua", 1, 8, ""}, {"hover", "a.lua", 1, 8, ""}, {"hover", "a.lua", 0, 6, ""}, {"definition", "a.lua", 2, 18, ""},
				{"definition", "d.lua", 0, 6, ""}, {"references", "d.lua", 0, 10, ""}, {"completion", "a.lua", 1, 8, "."}}},
		{name: "w4-global-used-in-three-files",
			files: map[string]string{"a.lua": "gcount = 1\n", "b.lua": "print(gcount)\n", "c.lua": "gcount = gcount + 1\nprint(gundefined)\n", "d.lua": "local unused = gcount\n"},
			open:  []string{"a.lua", "b.lua"},
			queries: []c09Query{{"references", "a.lua", 0, 0, ""}, {"references", "b.lua", 0, 6, ""}, {"definition", "b.lua", 0, 6, ""},
				{"hover", "b.lua", 0, 6, ""}, {"wssymbol", "", 0, 0, "gcount"}}},
		{name: "w5-symbols-sharing-a-prefix",
			files: map[string]string{"a.lua": "function preAlpha() end\nprevar = 1\n", "b.lua": "function preBeta() end\nlocal function preLocal() end\npreLocal()\n",
				"c.lua": "preTable = {}\nfunction preTable.preMember() end\n"},
			open: []string{"a.lua"},
			queries: []c09Query{{"wssymbol", "", 0, 0, "pre"}, {"wssymbol", "", 0, 0, "preB"}, {"docsymbol", "a.lua", 0, 0, ""},
				{"completion", "a.lua", 1, 3, ""}}},
		{name: "w6-class-annotations-in-two-files",
			files: map[string]string{"a.lua": "---@class Base\n---@field fa number\nBase = {}\n", "b.lua": "---@class Derived : Base\n---@field fb number\nDerived = {}\n",
				"c.lua": "---@type Derived\nlocal v = {}\nprint(v.fa, v.fb)\n"},
			open:    []string{"c.lua"},
			queries: []c09Query{{"definition", "c.lua", 2, 8, ""}, {"definition", "c.lua", 2, 14, ""}, {"hover", "c.lua", 2, 8, ""}, {"completion", "c.lua", 2, 8, "."}}},
		{name: "w10-global-that-is-a-function-in-one-file-and-a-number-further-down-in-another",
			files: map[string]string{"a.lua": "foo = function(p1, p2) return p1 end\n", "b.lua": "local unused = 0\nprint(unused)\nfoo = 12345\n", "c.lua": "local x = 1\nprint(x)\n\n"},
			open:  []string{"c.lua"},
			events: func(s *drv.Server) {
				// the user types "fo" on the empty last line (unsaved)
				s.ChangeInc("c.lua", []drv.Edit{{Range: drv.Range{Start: drv.Pos{Line: 2, Character: 0}, End: drv.Pos{Line: 2, Character: 0}}, Text: "fo"}})
			},
			queries: []c09Query{{"completion+resolve", "c.lua", 2, 2, "foo"}, {"completion", "c.lua", 2, 2, ""}}},
		{name: "w11-same-named-modules-of-unequal-score-the-better-one-sorting-later",
			files: map[string]string{"zz/util.lua": "local M = {}\nM.inzz = 1\nreturn M\n", "aa/bb/util.lua": "local M = {}\nM.inaa = 1\nreturn M\n",
				"zz/main.lua": "local u = require(\"util\")\nprint(u.inzz, u.inaa)\n"},
			open: []string{"zz/main.lua"},
			queries: []c09Query{{"definition", "zz/main.lua", 0, 20, ""}, {"hover", "zz/main.lua", 0, 20, ""}, {"definition", "zz/main.lua", 1, 9, ""}, {"definition", "zz/main.lua", 1, 17, ""}}},
		{name: "w9-one-watched-files-batch-naming-a-changed-and-an-unchanged-file",
			files: map[string]string{"a.lua": "local z = 1\nprint(z)\n", "b.lua": "gy = 1\n", "c.lua": "print(gx, gy)\n"},
			open:  []string{"c.lua"},
			events: func(s *drv.Server) {
				// b.lua is reported once with unchanged content, then a batch names a really changed a.lua together with b.lua
				s.Watched([]drv.FileEvent{{Rel: "b.lua", Type: 2}})
				os.WriteFile(filepath.Join(s.Root, "a.lua"), []byte("gx = 1\n"), 0o644)
				s.Watched([]drv.FileEvent{{Rel: "a.lua", Type: 2}, {Rel: "b.lua", Type: 2}})
			},
			queries: []c09Query{{"definition", "c.lua", 0, 6, ""}, {"hover", "c.lua", 0, 6, ""}, {"references", "c.lua", 0, 6, ""}}},
		{name: "w8-table-with-more-members-than-the-hover-preview-shows",
			files: map[string]string{"a.lua": c09BigTable(), "b.lua": "print(big.f01)\n"},
			open:  []string{"a.lua", "b.lua"},
			queries: []c09Query{{"hover", "a.lua", 0, 0, ""}, {"hover", "b.lua", 0, 6, ""}, {"completion", "b.lua", 0, 10, "."}, {"docsymbol", "a.lua", 0, 0, ""}}},
		{name: "w7-directory-reachable-under-two-names(symlink)",
			files: map[string]string{"lib/mod.lua": "local M = {}\nM.x = 1\ngsym = 1\nreturn M\n", "alias": drv.SymlinkPrefix + "lib", "zlink": drv.SymlinkPrefix + "lib",
				"main.lua": "local mod = require(\"mod\")\nprint(mod.x, gsym)\n"},
			open: []string{"main.lua"},
			queries: []c09Query{{"definition", "main.lua", 0, 21, ""}, {"definition", "main.lua", 1, 10, ""}, {"definition", "main.lua", 1, 14, ""}, {"references", "main.lua", 1, 14, ""},
				{"wssymbol", "", 0, 0, "gsym"}, {"hover", "main.lua", 0, 21, ""}}},
	}
}

// c09BigTable: a global table with 40 members (the hover preview lists the first 30 in name order)
func c09BigTable() string {
	var sb strings.Builder
	sb.WriteString("big = {\n")
	for k := 40; k >= 1; k-- {
		fmt.Fprintf(&sb, "  f%02d = %d,\n", k, k)
	}
	sb.WriteString("}\n")
	return sb.String()
}

func c09Answer(s *drv.Server, q c09Query) string {
	switch q.kind {
	case "definition":
		l, err := s.Definition(q.file, q.line, q.ch)
		if err != nil {
			return "error:" + err.Error()
		}
		return frSet(locsToFR(s, l))
	case "references":
		l, err := s.References(q.file, q.line, q.ch)
		if err != nil {
			return "error:" + err.Error()
		}
		return frSet(locsToFR(s, l))
	case "hover":
		h, err := s.Hover(q.file, q.line, q.ch)
		if err != nil {
			return "error:" + err.Error()
		}
		return strings.ReplaceAll(h, s.Root, "$ROOT")
	case "completion":
		it, err := s.Completion(q.file, q.line, q.ch, q.arg)
		if err != nil {
			return "error:" + err.Error()
		}
		var ls []string
		for _, i := range it {
			ls = append(ls, fmt.Sprintf("%s/%d", i.Label, i.Kind))
		}
		sort.Strings(ls)
		return strings.Join(ls, ",")
	case "completion+resolve":
		// the item labelled q.arg of the candidate list, resolved: kind, detail and documentation name the winning definition
		raw, err := s.CallRaw("textDocument/completion", map[string]interface{}{"textDocument": map[string]interface{}{"uri": s.URI(q.file)},
			"position": map[string]interface{}{"line": q.line, "character": q.ch}, "context": map[string]interface{}{"triggerKind": 1}})
		if err != nil {
			return "error:" + err.Error()
		}
		var items []map[string]interface{}
		if json.Unmarshal(raw, &items) != nil {
			var w struct {
				Items []map[string]interface{} `json:"items"`
			}
			json.Unmarshal(raw, &w)
			items = w.Items
		}
		for _, it := range items {
			if it["label"] == q.arg {
				res, err := s.CallRaw("completionItem/resolve", it)
				if err != nil {
					return fmt.Sprintf("kind=%v resolve-error:%s", it["kind"], err.Error())
				}
				return fmt.Sprintf("kind=%v resolved=%s", it["kind"], strings.ReplaceAll(string(res), s.Root, "$ROOT"))
			}
		}
		return "not-offered"
	case "wssymbol":
		ws, err := s.WsSymbols(q.arg)
		if err != nil {
			return "error:" + err.Error()
		}
		var ls []string
		for _, w := range ws {
			ls = append(ls, fmt.Sprintf("%s@%s:%s", w.Name, s.Rel(w.Location.URI), w.Location.Range))
		}
		sort.Strings(ls)
		return strings.Join(ls, ",")
	case "docsymbol":
		ds, err := s.DocSymbols(q.file)
		if err != nil {
			return "error:" + err.Error()
		}
		var flat []drv.DocSymbol
		flattenSyms(ds, &flat)
		var ls []string
		for _, f := range flat {
			ls = append(ls, f.Name+"@"+f.Range.String())
		}
		sort.Strings(ls)
		return strings.Join(ls, ",")
	}
	return "?"
}

// c09Body is the closed system: start on the workspace, open files, ask everything.
func c09Body(ws c09WS) func() string {
	return func() string {
		root := drv.NewWorkspace(ws.files)
		defer drv.RemoveWorkspace(root)
		s, err := drv.StartDirect(root, drv.Options{InitOptions: drv.AllChecks()})
		if err != nil {
			return "start-error:" + err.Error()
		}
		defer s.Close()
		for _, f := range ws.open {
			s.Open(f, ws.files[f])
		}
		if ws.events != nil {
			ws.events(s)
		}
		var sb strings.Builder
		sb.WriteString(s.DiagView())
		for _, q := range ws.queries {
			fmt.Fprintf(&sb, "%s %s %d:%d %s => %s\n", q.kind, q.file, q.line, q.ch, q.arg, c09Answer(s, q))
		}
		return sb.String()
	}
}

type c09Config struct {
	ws      int
	cpus    int
	mapR    uint64
	yield   bool
	bound   int
	maxExec int64
	dirMode int // permutation of whole-directory reads (0 = as the operating system delivers them)
}

func c09Configs(tier string) []c09Config {
	var out []c09Config
	nws := len(c09Workspaces())
	for w := 0; w < nws; w++ {
		for _, cpu := range []int{1, 2} {
			for r := uint64(0); r < 9; r++ {
				// synchronisation-level schedules: every schedule with <=1 deviation for each map offset;
				// <=2 deviations at offset 0 (quick) / at every offset (thorough)
				b := 1
				if tier == "thorough" || r == 0 {
					b = 2
				}
				out = append(out, c09Config{w, cpu, r, false, b, 60000, 0})
			}
			// method-entry granularity, <=1 deviation, at two map offsets (thorough: <=2 at offset 0)
			for _, r := range []uint64{0, 1} {
				b := 1
				if tier == "thorough" && r == 0 {
					b = 2
				}
				out = append(out, c09Config{w, cpu, r, true, b, 60000, 0})
			}
		}
		// directory listing order: reversed and rotated whole-directory reads, default schedule plus <=1 deviation
		for _, dm := range []int{1, 2, 3} {
			out = append(out, c09Config{w, 1, 0, false, 1, 60000, dm})
		}
	}
	return out
}

func c09Space(tier string) *core.Space {
	wss := c09Workspaces()
	cfgs := c09Configs(tier)
	return &core.Space{
		Name: "workspaces-x-poolwidth-x-map-offset-x-schedules", N: int64(len(cfgs)), Chunk: 1, RecycleEvery: 1,
		ChunkTimeoutS: 1800,
		Describe: func(i int64) interface{} {
			c := cfgs[i]
			return map[string]interface{}{"workspace": wss[c.ws].name, "files": wss[c.ws].files, "NumCPU": c.cpus, "map_iteration_offset": c.mapR,
				"method_entry_points": c.yield, "deviation_bound": c.bound, "directory_read_permutation": c.dirMode}
		},
		Run: func(i int64, r *core.Result) {
			c := cfgs[i]
			ws := wss[c.ws]
			vrt.SetNumCPU(c.cpus)
			vrt.SetMapOrder(true, c.mapR)
			vrt.SetClock(time.Unix(1700000000, 0))
			defer func() { vrt.SetNumCPU(0); vrt.SetMapOrder(false, 0); vrt.ClearClock() }()
			// reference outcome: canonical configuration (1 CPU, offset 0), default schedule
			vrt.SetNumCPU(1)
			vrt.SetMapOrder(true, 0)
			sc := &sched.Scenario{Name: ws.name, Body: c09Body(ws)}
			ref := sched.RunOnce(sc, nil, 60*time.Second)
			vrt.SetNumCPU(c.cpus)
			vrt.SetMapOrder(true, c.mapR)
			vrt.SetDirOrder(c.dirMode)
			defer vrt.SetDirOrder(0)
			if ref.Err != "" {
				r.Fail("c09", i, "harness:"+ref.Err, ws.name, map[string]interface{}{"workspace": ws.name})
				return
			}
			sc.YieldAtMethods = c.yield
			outcomes := map[string]int{}
			var firstDiff *sched.Exec
			stt := sched.Explore(sc, c.bound, c.maxExec, time.Now().Add(20*time.Minute), func(ex *sched.Exec) bool {
				r.Evaluated++
				r.States++
				r.Transitions += int64(len(ex.Points))
				if ex.Err != "" {
					r.Count("harness_errors:"+ex.Err, 1)
					return true
				}
				if ex.Res.Deadlock {
					r.Fail("c09", i, "deadlock", ws.name+strings.Join(ex.Res.Blocked, ";"), map[string]interface{}{"workspace": ws.name, "blocked": ex.Res.Blocked, "schedule": ex.Choices})
					return false
				}
				if ex.Res.Panic != nil {
					r.Fail("c09", i, "panic-under-schedule", ws.name+fmt.Sprint(ex.Res.Panic), map[string]interface{}{"workspace": ws.name, "panic": fmt.Sprint(ex.Res.Panic), "stack": ex.Res.PanicAt, "schedule": ex.Choices})
					return false
				}
				outcomes[ex.Obs]++
				if ex.Obs != ref.Obs && firstDiff == nil {
					firstDiff = ex
				}
				return true
			})
			if stt.NonDeterministic {
				r.Count("harness_errors:default schedule not reproducible", 1)
			}
			r.Count("choice_points_with_alternatives", stt.ChoicePoints)
			if stt.Capped {
				r.Count("configurations_capped_before_bound_completed", 1)
			} else {
				r.Count("configurations_completed_to_bound", 1)
			}
			if len(outcomes) > 1 || firstDiff != nil {
				r.Nontrivial++
			}
			r.Outcome(fmt.Sprintf("%s:distinct-outcomes=%d", ws.name, len(outcomes)))
			if i%7 == 0 {
				r.Sample(map[string]interface{}{"workspace": ws.name, "NumCPU": c.cpus, "map_offset": c.mapR, "method_entry_points": c.yield, "executions": stt.Executions,
					"max_scheduling_steps": stt.MaxSteps, "distinct_outcomes": len(outcomes)})
			}
			if firstDiff != nil {
				// which observable lines differ
				var diff []string
				a, b := strings.Split(ref.Obs, "\n"), strings.Split(firstDiff.Obs, "\n")
				for k := 0; k < len(a) || k < len(b); k++ {
					la, lb := "", ""
					if k < len(a) {
						la = a[k]
					}
					if k < len(b) {
						lb = b[k]
					}
					if la != lb {
						kind := strings.SplitN(la+" ", " ", 2)[0]
						if strings.Contains(la, ": ") && !strings.Contains(la, "=>") {
							kind = "diagnostics"
						}
						diff = append(diff, kind)
					}
				}
				sort.Strings(diff)
				sig := "outcome-depends-on-schedule-or-map-order"
				if c.dirMode != 0 {
					sig = "outcome-depends-on-directory-listing-order"
				}
				coreS := fmt.Sprintf("%s | %s | differing: %s", sig, ws.name, strings.Join(uniq(diff), ","))
				r.Fail("c09", i, sig, coreS, map[string]interface{}{"failure_core": coreS, "workspace": ws.name, "files": ws.files, "NumCPU": c.cpus, "map_iteration_offset": c.mapR, "directory_read_permutation": c.dirMode,
					"method_entry_points": c.yield, "schedule": firstDiff.Choices, "reference_outcome(1 cpu, offset 0, default schedule)": ref.Obs, "outcome": firstDiff.Obs})
			}
		},
	}
}

func uniq(xs []string) []string {
	var out []string
	for i, x := range xs {
		if i == 0 || x != xs[i-1] {
			out = append(out, x)
		}
	}
	return out
}

func init() {
	core.Register(&core.Check{
		ID:        "C09",
		Technique: "stateless schedule exploration of the real server under a controlled runtime (iterative context bounding over goroutine start, channel, reflect.Select, mutex, WaitGroup and shared-object method-entry points) crossed with the pool width and every start offset of Go's map iteration; all executions of a workspace must give identical observables",
		Rule: "closed systems: 11 small workspaces (same-named modules of unequal score, a global that is a function in one file and a number in another, completed and resolved from a third, a watched-files batch naming a changed and an unchanged file, a table with more members than the hover preview shows, a directory reachable under three names through symbolic links, duplicate global function, same-base-name modules, files that look at each other during the first pass through a type-2 import frame and an enum block, a global used in three files, symbols sharing a prefix, class annotations across files); each is started (directory scan, first/second/third pass pools), files are opened and definition/hover/references/completion/symbol queries are asked; " +
			"explored: every schedule with <=1 deviation from the default schedule at synchronisation points for NumCPU in {1,2} x 9 map-order values (the canonical insertion order and, for every map, each of its 8 start offsets once) (<=2 deviations at offset 0; thorough: at every offset), plus method-entry granularity with <=1 deviation at offsets {0,1} (thorough: <=2 at offset 0); oracle: the normalised observables equal those of the canonical execution (1 CPU, offset 0, default schedule). " +
			"states = completed executions; transitions = scheduling decisions; non-trivial = configurations with more than one outcome",
		Assumptions: []string{
			"the controlled runtime owns goroutine creation, channel operations, reflect.Select, sync.Mutex/WaitGroup, runtime.NumCPU, time.Now, the start offset of every map iteration (runtime overlay) and the order in which whole-directory reads deliver their entries (os overlay: natural, reversed, rotated by 1 and 2; functions that sort afterwards are unaffected by construction)",
			"map iteration order is explored through the runtime's real degree of freedom (start bucket/offset), one global value per execution",
			"executions per configuration are capped (see counters); a capped configuration is reported as such, not as exhaustive",
		},
		Flavour: "inst-ctl", QuickBudgetS: 240, ThoroughBudgetS: 1800,
		Spaces: func(tier string) []*core.Space { return []*core.Space{c09Space(tier), racePassSpace("c09", 2)} },
	})
}
