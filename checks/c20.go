package checks

import (
	"fmt"
	"sort"
	"strings"

	"verif/internal/core"
	"verif/internal/drv"
	"verif/internal/enum"
	"verif/internal/luaref"
)

// C20: the pattern-based checks fire exactly where their pattern occurs.

type c20Inst struct {
	code    string       // one line of Lua (statement, or expression to be planted)
	expr    bool         // code is an expression
	must    map[int]bool // types that must be reported exactly once on the line
	mustNot map[int]bool // types that must not be reported on the line
	times   map[int]int  // how often a must type is due on the line when that is not once (two different duplicated keys)
	family  string
}

var c20Types = []int{5, 7, 8, 13, 14, 15, 16, 19, 20, 21}

func set(ts ...int) map[int]bool {
	m := map[int]bool{}
	for _, t := range ts {
		m[t] = true
	}
	return m
}

func c20Instances() []c20Inst {
	var out []c20Inst
	vars := []string{"a", "b", "a.x", "a.y"}
	isVar := func(s string) bool {
		for _, v := range vars {
			if v == s {
				return true
			}
		}
		return false
	}
	calls := []string{"a:m()", "a:n()", "f(a)", "f(b)"}
	isCall := func(s string) bool {
		for _, v := range calls {
			if v == s {
				return true
			}
		}
		return false
	}
	operands := append(append(append([]string{}, vars...), "1", "1.5", "true", "false", `"s"`, "nil"), calls...)
	ops := []string{"or", "and", "<", "<=", ">", ">=", "==", "~=", "+", "-", "*", "..", "%"}
	doc14 := map[string]bool{"or": true, "and": true, "<": true, "<=": true, ">": true, ">=": true, "==": true, "~=": true}
	for _, op := range ops {
		for _, e1 := range operands {
			for _, e2 := range operands {
				in := c20Inst{code: e1 + " " + op + " " + e2, expr: true, must: set(), mustNot: set(5, 7, 8, 13, 19, 20), family: "binary-expression"}
				// 14: identical variable operands of a listed operator
				if isVar(e1) && isVar(e2) {
					if e1 == e2 && doc14[op] {
						in.must[14] = true
					} else if e1 != e2 || !doc14[op] {
						if !(e1 == e2) { // same operands under an unlisted operator: not fixed by the documentation
							in.mustNot[14] = true
						}
					}
				}
				if (isCall(e1) || isCall(e2)) && e1 != e2 && (isCall(e1) || isVar(e1)) && (isCall(e2) || isVar(e2)) {
					in.mustNot[14] = true // different calls / a call and a variable are never "the same operand"
				}
				// 15 / 16
				if op == "or" && e2 == "true" && isVar(e1) {
					in.must[15] = true
				} else if op != "or" || (e2 != "true" && e1 != "true") {
					in.mustNot[15] = true
				}
				if op == "and" && e2 == "false" && isVar(e1) {
					in.must[16] = true
				} else if op != "and" || (e2 != "false" && e1 != "false") {
					in.mustNot[16] = true
				}
				// 21
				eq := op == "==" || op == "~="
				if eq && (e1 == "1.5" && isVar(e2) || e2 == "1.5" && isVar(e1)) {
					in.must[21] = true
				} else if !eq || (e1 != "1.5" && e2 != "1.5") {
					in.mustNot[21] = true
				}
				out = append(out, in)
			}
		}
	}
	// table constructors: key lists of length <= 3
	keys := []string{"x = 1", "y = 1", `["x"] = 1`, "[1] = 1", "[2] = 1", "1", "s = {x = 1}", "u = {z = 1, w = function() return {x = 1} end}"}
	keyID := map[string]string{"x = 1": "s:x", "y = 1": "s:y", `["x"] = 1`: "s:x", "[1] = 1": "n:1", "[2] = 1": "n:2", "1": "pos",
		"s = {x = 1}": "s:s", "u = {z = 1, w = function() return {x = 1} end}": "s:u"}
	var rec func(cur []string)
	rec = func(cur []string) {
		if len(cur) >= 1 {
			in := c20Inst{code: "t = {" + strings.Join(cur, ", ") + "}", must: set(), mustNot: set(7, 8, 13, 14, 15, 16, 19, 20, 21), family: "table-constructor"}
			seen := map[string]int{}
			npos := 0
			dc := false
			for _, k := range cur {
				id := keyID[k]
				if id == "pos" {
					npos++
					continue
				}
				seen[id]++
			}
			dup := 0
			for id, n := range seen {
				if n > 1 {
					dup += n - 1
				}
				if strings.HasPrefix(id, "n:") && npos > 0 {
					dc = true // positional value versus [1]= : not judged
				}
			}
			if !dc {
				if dup == 1 {
					in.must[5] = true
				} else if dup == 0 {
					in.mustNot[5] = true
				}
			}
			out = append(out, in)
		}
		if len(cur) == 3 {
			return
		}
		for _, k := range keys {
			rec(append(append([]string{}, cur...), k))
		}
	}
	rec(nil)
	// two different keys, each given twice, in one constructor: two places where the pattern occurs, two reports (those for
	// integer keys carry the range of the whole constructor and differ in the message only)
	for _, ks := range [][]string{{"[1] = 1", "[1] = 2", "[2] = 3", "[2] = 4"}, {"[1] = 1", "[2] = 2", "[1] = 3", "[2] = 4"}, {"x = 1", "x = 2", "y = 3", "y = 4"},
		{"x = 1", "[1] = 2", "x = 3", "[1] = 4"}, {"[1] = 1", "[1] = 2", "[2] = 3", "[2] = 4", "z = 5"}} {
		out = append(out, c20Inst{code: "t = {" + strings.Join(ks, ", ") + "}", must: set(5), mustNot: set(7, 8, 13, 14, 15, 16, 19, 20, 21), times: map[int]int{5: 2}, family: "table-constructor"})
	}
	// assignments and local declarations: 1-3 targets, 1-3 values
	vals := []string{"1", "f()", "(f())", "..."}
	names := []string{"p", "q", "r"}
	var vrec func(cur []string)
	vrec = func(cur []string) {
		if len(cur) >= 1 {
			for nt := 1; nt <= 3; nt++ {
				multi := false
				last := cur[len(cur)-1]
				if last == "f()" || last == "..." {
					multi = true
				}
				anyCallNotLast := false
				for _, v := range cur[:len(cur)-1] {
					if v == "f()" || v == "..." {
						anyCallNotLast = true
					}
				}
				for _, kind := range []string{"assign", "local"} {
					code := strings.Join(names[:nt], ", ") + " = " + strings.Join(cur, ", ")
					t := 7
					if kind == "local" {
						code = "local " + code
						t = 8
					}
					in := c20Inst{code: code, must: set(), mustNot: set(5, 13, 14, 15, 16, 19, 20, 21), family: kind + "-value-count"}
					other := 15 - t // 8 or 7
					in.mustNot[other] = true
					switch {
					case len(cur) > nt:
						in.must[t] = true
					case len(cur) == nt:
						in.mustNot[t] = true
					case !multi && !anyCallNotLast && len(cur) < nt:
						// fewer single-valued values than targets (documented for the local form by the implementation; the
						// statement lists the shortfall for both forms)
						hasParen := false
						for _, v := range cur {
							if v == "(f())" {
								hasParen = true
							}
						}
						if !hasParen {
							in.must[t] = true
						}
					case multi:
						in.mustNot[t] = true
					}
					out = append(out, in)
				}
			}
		}
		if len(cur) == 3 {
			return
		}
		for _, v := range vals {
			vrec(append(append([]string{}, cur...), v))
		}
	}
	vrec(nil)
	// parameter lists of <= 3 over {a, b, _}
	ps := []string{"a", "b", "c"}
	var prec func(cur []string)
	prec = func(cur []string) {
		for _, form := range []string{"function g(%s) end", "local function g(%s) end", "h = function(%s) end"} {
			in := c20Inst{code: fmt.Sprintf(form, strings.Join(cur, ", ")), must: set(), mustNot: set(5, 7, 8, 14, 15, 16, 19, 20, 21), family: "parameter-list"}
			seen := map[string]int{}
			dup := 0
			for _, p := range cur {
				seen[p]++
				if seen[p] == 2 {
					dup++
				}
			}
			if dup == 1 && len(cur) <= 3 {
				ok := true
				for _, n := range seen {
					if n > 2 {
						ok = false
					}
				}
				if ok {
					in.must[13] = true
				}
			} else if dup == 0 {
				in.mustNot[13] = true
			}
			out = append(out, in)
		}
		if len(cur) == 3 {
			return
		}
		for _, p := range ps {
			prec(append(append([]string{}, cur...), p))
		}
	}
	prec(nil)
	// if / elseif chains of <= 3 conditions
	conds := []string{"a", "b", "a == 1", "a.x", "a:m(b)", "a:n(b)", "f(a)"}
	var crec func(cur []string)
	crec = func(cur []string) {
		if len(cur) >= 2 {
			code := "if " + cur[0] + " then"
			for _, c := range cur[1:] {
				code += " elseif " + c + " then"
			}
			code += " end"
			in := c20Inst{code: code, must: set(), mustNot: set(5, 7, 8, 13, 14, 15, 16, 20, 21), family: "if-elseif-chain"}
			seen := map[string]int{}
			dup := 0
			for _, c := range cur {
				seen[c]++
				if seen[c] == 2 {
					dup++
				}
				if seen[c] > 2 {
					dup = 99
				}
			}
			if dup == 1 {
				in.must[19] = true
			} else if dup == 0 {
				in.mustNot[19] = true
			}
			out = append(out, in)
		}
		if len(cur) == 3 {
			return
		}
		for _, c := range conds {
			crec(append(append([]string{}, cur...), c))
		}
	}
	crec(nil)
	// self assignment
	lv := []string{"a", "b", "a.x", "a.y", "a[1]"}
	for _, l := range lv {
		for _, rv := range append(append([]string{}, lv...), "1", "a:m()", "f(a)") {
			in := c20Inst{code: l + " = " + rv, must: set(), mustNot: set(5, 7, 8, 13, 14, 15, 16, 19, 21), family: "assignment"}
			if l == rv {
				in.must[20] = true
			} else {
				in.mustNot[20] = true
			}
			out = append(out, in)
		}
	}
	// the placeholder _ between, before and after a repeated name (duplicates of _ itself are exempt)
	for _, pl := range []struct {
		list string
		dup  bool
	}{{"a, _, a", true}, {"a, _, _, a", true}, {"_, a, _, a", true}, {"a, a, _", true}, {"_, a, a", true}, {"_, _, a", false}, {"_, _", false}, {"a, _, b, _", false}} {
		for _, form := range []string{"function g(%s) end", "local function g(%s) end", "h = function(%s) end", "t = {on = function(%s) end}"} {
			in := c20Inst{code: fmt.Sprintf(form, pl.list), must: set(), mustNot: set(5, 7, 8, 14, 15, 16, 19, 20, 21), family: "parameter-list-with-placeholder"}
			if pl.dup {
				in.must[13] = true
			} else {
				in.mustNot[13] = true
			}
			out = append(out, in)
		}
	}
	// chains of three operands of one operator: the grammar groups them to the left, so only an identical LEFT pair is
	// "the same operand twice"
	for _, op := range []string{"or", "and", "==", "<"} {
		for _, e1 := range []string{"a", "b"} {
			for _, e2 := range []string{"a", "b"} {
				for _, e3 := range []string{"a", "b"} {
					in := c20Inst{code: e1 + " " + op + " " + e2 + " " + op + " " + e3, expr: true, must: set(), mustNot: set(5, 7, 8, 13, 15, 16, 19, 20, 21), family: "operator-chain"}
					if e1 == e2 {
						in.must[14] = true
					} else {
						in.mustNot[14] = true
					}
					out = append(out, in)
				}
			}
		}
	}
	out = append(out, c20Inst{code: "a, b = b, a", must: set(), mustNot: set(5, 7, 8, 13, 14, 15, 16, 19, 20, 21), family: "assignment"})
	// two targets, two values: a self-assignment only if every target gets itself
	nm := []string{"a", "b", "c"}
	for _, l1 := range nm {
		for _, l2 := range nm {
			if l1 == l2 {
				continue
			}
			for _, r1 := range nm {
				for _, r2 := range nm {
					in := c20Inst{code: l1 + ", " + l2 + " = " + r1 + ", " + r2, must: set(), mustNot: set(5, 7, 8, 13, 14, 15, 16, 19, 21), family: "multiple-assignment"}
					if l1 == r1 && l2 == r2 {
						in.must[20] = true
					} else {
						in.mustNot[20] = true
					}
					out = append(out, in)
				}
			}
		}
	}
	return out
}

// contexts: how an instance is planted; %s is the instance, the instance line is the one containing it
var c20ExprCtx = []string{"x = %s", "local v = %s", "local v = c, %s", "x = c, %s", "local v, u = c, c, %s", "f(%s)", "t = {%s}", "t = {k = %s}", "if %s then end", "while %s do end", "return %s",
	"x = function() return %s end", "f(1, %s)", "x = (%s)", "x = not (%s)"}
var c20Wrap = []string{"%s", "do\n%s\nend", "function w()\n%s\nend", "if c then\n%s\nend", "if c then\nelse\n%s\nend", "for i = 1, 2 do\n%s\nend",
	"w = function()\nlocal k = 1\n%s\nend", "do\ndo\n%s\nend\nend", "function w()\nif c then\n%s\nend\nend"}

type c20Case struct {
	text string
	line int
	in   c20Inst
	ctx  string
}

func c20Build(in c20Inst, ec, wc int) c20Case {
	stmt := in.code
	ctx := ""
	if in.expr {
		stmt = fmt.Sprintf(c20ExprCtx[ec], in.code)
		ctx = c20ExprCtx[ec] + " in "
		if strings.Contains(c20ExprCtx[ec], "c, %s") {
			// the instance is a surplus value: the statement itself is (rightly) reported with 7 or 8, which is not judged here
			mn := map[int]bool{}
			for t, v := range in.mustNot {
				if t != 7 && t != 8 {
					mn[t] = v
				}
			}
			in.mustNot = mn
		}
	}
	w := c20Wrap[wc]
	ctx += strings.ReplaceAll(w, "\n", " ")
	text := fmt.Sprintf(w, stmt) + "\n"
	line := strings.Count(w[:strings.Index(w, "%s")], "\n")
	if strings.HasPrefix(stmt, "return") && wc != 0 && !strings.Contains(w, "%s\nend") {
		// return must end its block: only wraps where the instance is the last statement are used (all of ours are)
	}
	return c20Case{text, line, in, ctx}
}

func c20Space(tier string) *core.Space {
	insts := c20Instances()
	nE, nW := len(c20ExprCtx), len(c20Wrap)
	if tier != "thorough" {
		nW = 4
	}
	// ranking: expression instances x exprCtx x wrap ; statement instances x wrap
	var cum []int64
	cum = append(cum, 0)
	for _, in := range insts {
		if in.expr {
			cum = append(cum, cum[len(cum)-1]+int64(nE*nW))
		} else {
			cum = append(cum, cum[len(cum)-1]+int64(nW))
		}
	}
	at := func(i int64) c20Case {
		k := enum.Locate(cum, i)
		j := int(i - cum[k])
		if insts[k].expr {
			return c20Build(insts[k], j/nW, j%nW)
		}
		return c20Build(insts[k], 0, j)
	}
	return &core.Space{
		Name: "pattern-instances-and-near-misses", N: cum[len(cum)-1], Chunk: 300, RecycleEvery: 30,
		Describe: func(i int64) interface{} {
			c := at(i)
			return map[string]interface{}{"m.lua": c.text, "instance_line": c.line, "family": c.in.family}
		},
		Run: func(i int64, r *core.Result) {
			c := at(i)
			r.Evaluated++
			if luaref.Parse(c.text).Err != nil {
				r.Count("planted_program_not_valid_skipped", 1)
				return
			}
			root := drv.NewWorkspace(map[string]string{"m.lua": c.text})
			defer drv.RemoveWorkspace(root)
			s, err := drv.Start(root, drv.Options{InitOptions: drv.AllChecks()})
			if err != nil {
				r.Fail("patterns", i, "server-start-failed", c.text, map[string]interface{}{"error": err.Error()})
				return
			}
			defer s.Close()
			r.Transitions += 2
			if len(c.in.must) > 0 {
				r.Nontrivial++
			}
			counts := map[int]int{}
			elsewhere := map[int]int{}
			for _, d := range s.Diags["m.lua"] {
				if d.Range.Start.Line <= c.line && c.line <= d.Range.End.Line {
					counts[d.Type]++
				} else {
					elsewhere[d.Type]++
				}
			}
			if i%1499 == 0 {
				r.Sample(map[string]interface{}{"m.lua": c.text, "must": keysOf(c.in.must), "reported_on_instance_line": counts})
			}
			for _, t := range c20Types {
				r.States++
				sig := ""
				due := 1
				if n, ok := c.in.times[t]; ok {
					due = n
				}
				switch {
				case c.in.must[t] && counts[t] == 0:
					sig = fmt.Sprintf("pattern-not-reported:type%d:%s", t, c.in.family)
				case c.in.must[t] && counts[t] < due:
					sig = fmt.Sprintf("pattern-reported-%d-times-instead-of-%d:type%d:%s", counts[t], due, t, c.in.family)
				case c.in.must[t] && counts[t] > due:
					sig = fmt.Sprintf("pattern-reported-%d-times:type%d:%s", counts[t], t, c.in.family)
				case c.in.mustNot[t] && counts[t] > 0:
					sig = fmt.Sprintf("reported-without-pattern:type%d:%s", t, c.in.family)
				case elsewhere[t] > 0:
					sig = fmt.Sprintf("reported-on-a-line-without-instance:type%d", t)
				}
				if sig == "" {
					if c.in.must[t] {
						r.Outcome(fmt.Sprintf("reported:type%d", t))
					}
					continue
				}
				r.Outcome(sig)
				coreS := fmt.Sprintf("%s | %s | %s", sig, c.in.code, c.ctx)
				r.Fail("patterns", i, sig, coreS, map[string]interface{}{"failure_core": coreS, "m.lua": c.text, "instance_line": c.line, "diagnostics": s.Diags["m.lua"]})
			}
		},
	}
}

func keysOf(m map[int]bool) []int {
	var k []int
	for t := range m {
		k = append(k, t)
	}
	sort.Ints(k)
	return k
}

func init() {
	core.Register(&core.Check{
		ID:        "C20",
		Technique: "bounded-exhaustive enumeration of pattern instances and near-misses (per-pattern small spaces x syntactic contexts x nesting wraps) on the real server against independent pattern matchers with explicit don't-care zones",
		Rule: "instances: all binary expressions e1 op e2 over 10 operands and 13 operators; all table constructors with <=3 entries over 6 key forms; all assignments / local declarations with 1-3 targets and 1-3 values over {1, f(), (f()), ...}; all parameter lists <=3 over {a,b,c} in three function forms; " +
			"all if/elseif chains of 2-3 conditions over 4 conditions; all single assignments l = r over 5 lvalues; each planted in 15 expression contexts (three of them the surplus value of an over-long assignment or local declaration) (expressions) and 4 (quick) / 9 (thorough) nesting wraps. " +
			"For each of the types 5,7,8,13,14,15,16,19,20,21: must be reported exactly once on the instance line / must not be reported / not judged. states = (program, type) obligations; non-trivial = programs containing a pattern that must be reported",
		Assumptions: []string{
			"don't-care: literal operands of comparisons for type 14, same operands under operators the documentation does not list, positional value versus [n]= keys, parenthesised calls in value lists, three or more repetitions",
			"matchers are written from docs/manual/config.md and the property statement, not from the implementation",
		},
		Flavour: "prod+overlay", QuickBudgetS: 150, ThoroughBudgetS: 900,
		Spaces: func(tier string) []*core.Space { return []*core.Space{c20Space(tier), c20TwoSpace()} },
	})
}
