package checks

import (
	"fmt"
	"strings"

	"verif/internal/core"
	"verif/internal/drv"
	"verif/internal/progen"
)

// C05: go-to-definition follows Lua's lexical scoping.

func lastSeg(ctx string) string {
	if i := strings.LastIndex(ctx, ">"); i >= 0 {
		return ctx[i+1:]
	}
	return ctx
}

type scopeSpaceDef struct {
	name     string
	alpha    *progen.Alphabet
	minNodes int
	maxNodes int
	others   []map[string]string
	limit    int64 // >1: only the first limit programs of the range
	oneLine  bool  // render the whole program on one line (sibling blocks share a line)
	// fixed: instead of the alphabet, an explicit list of programs (each a list of lines)
	fixed [][]string
}

func (d scopeSpaceDef) count() int64 {
	if d.fixed != nil {
		return int64(len(d.fixed) * len(d.others))
	}
	var lo int64
	if d.minNodes > 1 {
		lo = d.alpha.Count(d.minNodes - 1)
	}
	n := d.alpha.Count(d.maxNodes) - lo
	if d.limit > 1 && n > d.limit {
		n = d.limit
	}
	return n * int64(len(d.others))
}

func (d scopeSpaceDef) at(i int64) *scopeCase {
	if d.fixed != nil {
		nv := int64(len(d.others))
		return newScopeCase(d.fixed[i/nv], d.others[i%nv])
	}
	var lo int64
	if d.minNodes > 1 {
		lo = d.alpha.Count(d.minNodes - 1)
	}
	nv := int64(len(d.others))
	lines := d.alpha.Program(lo + i/nv)
	if d.oneLine {
		for k := range lines {
			lines[k] = strings.TrimLeft(lines[k], " ")
		}
		lines = []string{strings.Join(lines, " ")}
	}
	return newScopeCase(lines, d.others[i%nv])
}

func scopeSpaces(tier string) []scopeSpaceDef {
	forms, structure, coreA := scopeAlphabets()
	one := otherVariants[:1]
	if tier == "thorough" {
		return []scopeSpaceDef{
			{name: "sibling-blocks-on-one-line", others: one, fixed: siblingBlockPrograms()},
			{"forms-1node", forms, 1, 1, otherVariants, 1, false, nil},
			{"forms-2nodes", forms, 2, 2, one, 1, false, nil},
			{"structure<=3", structure, 1, 3, one, 1, false, nil},
			{"structure<=2-all-second-files", structure, 1, 2, otherVariants, 1, false, nil},
			{"structure<=3-on-one-line", structure, 1, 3, one, 1, true, nil},
			{"core-4nodes-depth3", coreA, 4, 4, one, 1, false, nil},
		}
	}
	return []scopeSpaceDef{
		// the small hand-written space runs first: it must never fall victim to an expiring budget
		{name: "sibling-blocks-on-one-line", others: one, fixed: siblingBlockPrograms()},
		{"forms-1node", forms, 1, 1, otherVariants, 1, false, nil},
		{"structure<=2-all-second-files", structure, 1, 2, otherVariants, 1, false, nil},
		{"structure<=2-on-one-line", structure, 1, 2, one, 1, true, nil},
		{"structure-3nodes", structure, 3, 3, one, 1, false, nil},
		{"structure-3nodes-on-one-line-first-40000", structure, 3, 3, one, 40000, true, nil},
	}
}

func c05Space(d scopeSpaceDef) *core.Space {
	return &core.Space{
		Name: d.name, N: d.count(), Chunk: 300, RecycleEvery: 30,
		Describe: func(i int64) interface{} { return caseDesc(d.at(i)) },
		Run: func(i int64, r *core.Result) {
			c := d.at(i)
			r.Evaluated++
			if c.Bind == nil {
				r.Fail(d.name, i, "generator-program-not-valid", c.Text, caseDesc(c))
				return
			}
			s, root, err := c.start(nil)
			if err != nil {
				r.Fail(d.name, i, "server-start-failed", c.Text, map[string]interface{}{"error": err.Error(), "case": caseDesc(c)})
				return
			}
			defer drv.RemoveWorkspace(root)
			defer s.Close()
			r.Transitions += 3
			shadow := false
			seen := map[string]int{}
			for _, dcl := range c.Bind.Decls {
				seen[dcl.Name]++
				if seen[dcl.Name] > 1 {
					shadow = true
				}
			}
			closure := false
			for _, o := range c.Bind.Occs {
				if o.Decl >= 0 && o.FuncDepth > c.Bind.Decls[o.Decl].FuncDepth {
					closure = true
				}
			}
			if shadow || closure {
				r.Nontrivial++
			}
			if i%997 == 0 {
				r.Sample(map[string]interface{}{"m.lua": c.Text, "other_files": len(c.Files) - 1, "occurrences": len(c.Bind.Occs)})
			}
			for _, o := range c.Bind.Occs {
				var want []fileRange
				if o.Decl >= 0 {
					want = []fileRange{{"m.lua", rng(c.Text, c.Bind.Decls[o.Decl].Span)}}
				} else {
					want = c.globalDefs(o.Name)
				}
				or := rng(c.Text, o.Span)
				for _, ch := range []int{or.Start.Character, or.End.Character} {
					locs, err := s.Definition("m.lua", or.Start.Line, ch)
					r.Transitions++
					r.States++
					if err != nil {
						r.Fail(d.name, i, "definition-request-error", c.Text+fmt.Sprint(or), map[string]interface{}{"error": err.Error(), "case": caseDesc(c)})
						continue
					}
					got := locsToFR(s, locs)
					ok := true
					if len(want) == 0 {
						ok = len(got) == 0
					} else {
						ok = len(got) > 0
						for _, g := range got {
							in := false
							for _, w := range want {
								if g == w {
									in = true
								}
							}
							if !in {
								ok = false
							}
						}
					}
					if ok {
						r.Outcome("agree:" + declKind(c, o.Decl))
						continue
					}
					kind := "wrong-declaration"
					if len(got) == 0 {
						kind = "no-answer"
					} else if len(want) == 0 {
						kind = "answer-for-undefined-global"
					}
					end := "start"
					if ch != or.Start.Character {
						end = "end"
					}
					sig := fmt.Sprintf("%s:%s-%s:bound-to-%s:in-%s", kind, o.Kind, end, declKind(c, o.Decl), lastSeg(c.occContext(o)))
					r.Outcome(sig)
					core := fmt.Sprintf("query %s end=%s | expected %s | server %s", lineAt(c.Text, or), end, c.frLines(want), c.frLines(got))
					r.Fail(d.name, i, sig, core, map[string]interface{}{"failure_core": core,
						"case": caseDesc(c), "position": fmt.Sprintf("%d:%d", or.Start.Line, ch), "identifier": o.Name,
						"expected_one_of": frSet(want), "server": frSet(got), "context": c.occContext(o)})
				}
			}
		},
	}
}

func init() {
	core.Register(&core.Check{
		ID:        "C05",
		Technique: "bounded-exhaustive program enumeration (every program of the statement alphabets up to the node bound, both ends of every identifier) on the real server, against an independent reference scope binder",
		Rule: "programs: all ranked programs of three statement alphabets over names {a,b} (forms: 31 expression forms, <=2 statement nodes; structure: reduced expressions, <=3 nodes, depth<=2; core: 4 nodes, depth<=3), one statement per line, " +
			"plus a second file defining global b; query: textDocument/definition at both ends of every name occurrence; oracle: internal/luaref binder (Lua manual 3.5). " +
			"states = (program, position) pairs judged; non-trivial = programs with a redeclared/shadowed name or a closure capture",
		Assumptions: []string{
			"reference binder implements Lua 5.4 manual §3.5 (cross-checked by its own tests)",
			"for a global, any defining assignment in any workspace file is accepted; querying a global definition may answer itself or another definition",
			"ASCII, one statement per line, so that column arithmetic (C04) cannot influence the verdict",
		},
		Flavour:      "prod+overlay",
		QuickBudgetS: 420, ThoroughBudgetS: 3600,
		Spaces: func(tier string) []*core.Space {
			var sp []*core.Space
			for _, d := range scopeSpaces(tier) {
				sp = append(sp, c05Space(d))
			}
			return sp
		},
	})
}
