package checks

import (
	"encoding/json"
	"fmt"
	"os"
	"path/filepath"
	"strings"

	"luahelper-lsp/langserver/check/common"
	"luahelper-lsp/langserver/check/compiler/parser"
	"luahelper-lsp/langserver/vrt"

	"verif/internal/core"
	"verif/internal/drv"
	"verif/internal/enum"
	"verif/internal/luaref"
	"verif/internal/textref"
)

// C01: the server never crashes or hangs, whatever the workspace or the client sends.
// A crash or hang kills / blocks the worker process and is attributed to a single case by the parent
// (core.triage); a fault that the code swallows with recover() is made visible by vrt.Recovered.

var c01Bytes = []string{"a", "0", "x", "e", ".", "-", "=", "[", "]", "(", ")", "{", "}", "\"", "'", "\\", "#", ":", "<", ">", "~", ",", " ", "\n", "\r", "\xe9", "\xef\xbb\xbf", "@", "|"}

// swallowed reports recovered panics that are not one of the two deliberate sentinels.
func c01Swallowed() []string {
	var bad []string
	for _, s := range vrt.TakeRecovered() {
		if strings.Contains(s, "*lexer.TooManyErr") || strings.Contains(s, "annotatelexer.ParseAnnotateErr") {
			continue
		}
		bad = append(bad, s)
	}
	return bad
}

func c01FrontEnd(name string, src string, i int64, r *core.Result) {
	r.Evaluated++
	r.States++
	r.Transitions++
	vrt.TakeRecovered()
	p := parser.CreateParser([]byte(src), "f.lua")
	_, comments, _ := p.BeginAnalyze()
	if len(comments) > 0 {
		r.Nontrivial++
		af := common.CreateAnnotateFile("f.lua")
		af.AnalysisAllComment(comments)
		r.Transitions++
	}
	if bad := c01Swallowed(); len(bad) > 0 {
		site := bad[0]
		if k := strings.Index(site, ": "); k > 0 {
			site = site[:k]
		}
		sig := "internal-fault-swallowed-by-recover@" + site
		r.Outcome(sig)
		r.Fail(name, i, sig, src, map[string]interface{}{"text": src, "recovered": bad})
	} else {
		r.Outcome("returns")
	}
	if i%1000003 == 0 {
		r.Sample(map[string]interface{}{"text": src, "layer": "front end"})
	}
}

func c01ByteSpace(L int) *core.Space {
	k := len(c01Bytes)
	name := fmt.Sprintf("front-end-all-byte-strings<=%d", L)
	at := func(i int64) string { return enum.Join(c01Bytes, enum.StringAt(k, i), "") }
	return &core.Space{Name: name, N: enum.CountStrings(k, L), Chunk: 100000, PerCaseTimeoutS: 20,
		Setup:    func() { common.GlobalConfigDefautInit(); common.GConfig.IntialGlobalVar() },
		Describe: func(i int64) interface{} { return map[string]interface{}{"text": at(i)} },
		Run:      func(i int64, r *core.Result) { c01FrontEnd(name, at(i), i, r) }}
}

func c01TokenSpace(L int) *core.Space {
	all := append(append([]string{}, c03Tokens...), c03Extra...)
	all = append(all, "---@type a", "---@class a : a", "---@alias a a", "--[[", "]]")
	k := len(all)
	name := fmt.Sprintf("front-end-all-token-strings<=%d", L)
	at := func(i int64) string { return enum.Join(all, enum.StringAt(k, i), " ") }
	return &core.Space{Name: name, N: enum.CountStrings(k, L), Chunk: 100000, PerCaseTimeoutS: 20,
		Setup:    func() { common.GlobalConfigDefautInit(); common.GConfig.IntialGlobalVar() },
		Describe: func(i int64) interface{} { return map[string]interface{}{"text": at(i)} },
		Run:      func(i int64, r *core.Result) { c01FrontEnd(name, at(i), i, r) }}
}

// ---- layer 2/3: full server start on small programs and their mutants, then requests at every position

var c01Requests = []string{"hover", "definition", "references", "rename", "highlight", "completion", "completion.", "completion:", "signatureHelp", "documentSymbol", "documentColor", "getVarColor", "codeLens", "documentLink"}

func c01Ask(s *drv.Server, rel string, kind string, line, ch int) error {
	pos := map[string]interface{}{"textDocument": map[string]interface{}{"uri": s.URI(rel)}, "position": map[string]interface{}{"line": line, "character": ch}}
	doc := map[string]interface{}{"textDocument": map[string]interface{}{"uri": s.URI(rel)}}
	var err error
	switch kind {
	case "hover":
		_, err = s.CallRaw("textDocument/hover", pos)
	case "definition":
		_, err = s.CallRaw("textDocument/definition", pos)
	case "references":
		pos["context"] = map[string]interface{}{"includeDeclaration": true}
		_, err = s.CallRaw("textDocument/references", pos)
	case "rename":
		pos["newName"] = "zz"
		_, err = s.CallRaw("textDocument/rename", pos)
	case "highlight":
		_, err = s.CallRaw("textDocument/documentHighlight", pos)
	case "completion", "completion.", "completion:":
		ctx := map[string]interface{}{"triggerKind": 1}
		if len(kind) > len("completion") {
			ctx = map[string]interface{}{"triggerKind": 2, "triggerCharacter": kind[len(kind)-1:]}
		}
		pos["context"] = ctx
		_, err = s.CallRaw("textDocument/completion", pos)
	case "signatureHelp":
		_, err = s.CallRaw("textDocument/signatureHelp", pos)
	case "documentSymbol":
		_, err = s.CallRaw("textDocument/documentSymbol", doc)
	case "documentColor":
		_, err = s.CallRaw("textDocument/documentColor", doc)
	case "getVarColor":
		_, err = s.CallRaw("luahelper/getVarColor", map[string]interface{}{"uri": s.URI(rel)})
	case "codeLens":
		_, err = s.CallRaw("textDocument/codeLens", doc)
	case "documentLink":
		_, err = s.CallRaw("textDocument/documentLink", doc)
	}
	if _, isRPC := err.(*drv.RPCError); isRPC {
		return nil // an error response is an answer
	}
	return err
}

type c01Doc struct {
	text string
	desc string
	// other: content of the second workspace file (default: the scope family's o.lua)
	other string
}

func c01Docs(tier string) []c01Doc {
	var out []c01Doc
	add := func(t, d string) { out = append(out, c01Doc{t, d, ""}) }
	for _, t := range []string{"", "\n", "\r", "😀", "a", "\xef\xbb\xbf", "--", "---@", "---@type", "---@class", "---@alias", "---|", "--[[", "[[", "\"", "a.", "a:", "a(", "a[", "{", "local", "function"} {
		add(t, "degenerate document")
	}
	// scope programs (valid) and all single-token deletions of the C03 statement forms (near-valid)
	forms, _, _ := scopeAlphabets()
	nf := forms.Count(1)
	stride := int64(7)
	if tier == "thorough" {
		stride = 1
	}
	for i := int64(0); i < nf; i += stride {
		add(strings.Join(forms.Program(i), "\n")+"\n", "scope program")
	}
	for k, p := range c03Programs("quick") {
		if tier != "thorough" && k%9 != 0 {
			continue
		}
		for m := int64(0); m < 1+2*int64(len(p.toks)); m++ {
			if tier != "thorough" && m%3 != 0 {
				continue
			}
			s, _ := c03Mutant(p.toks, m)
			add(s+"\n", "statement form mutant")
		}
	}
	// annotation lines and corruptions above a declaration, cyclic classes / aliases
	for _, l := range []string{"---@class A : A", "---@class A : B\n---@class B : A", "---@alias A B\n---@alias B A", "---@alias A A", "---@type A[]", "---@type table<A, A>",
		"---@type fun(", "---@field", "---@param", "---@return", "---@generic", "---@overload", "---@vararg", "---@enum start\nlocal e = (1)\n---@enum end", "---@type \"", "---@alias OpenMode \"",
		"---@class A\n---@field x A\n---@type A", "---@type A | B | \"s\"", "---|", "---| \"r\" # c"} {
		add(l+"\nlocal v = {}\nlocal w = v[1]\nprint(v.x, w, v[\"k\"])\n", "annotation block above a declaration")
	}
	// very long names (the fuzzy matcher of workspace/symbol works on fixed-size tables): ASCII, and names whose
	// byte length exceeds their length in characters
	for _, nm := range []string{strings.Repeat("a", 126), strings.Repeat("a", 127), strings.Repeat("a", 128), strings.Repeat("a", 300),
		"k" + strings.Repeat("名", 42), "k" + strings.Repeat("名", 60), "k" + strings.Repeat("名", 126), "k" + strings.Repeat("é", 100), "k" + strings.Repeat("😀", 40)} {
		add("gtab = {}\ngtab[\""+nm+"\"] = 1\ngtab."+strings.Repeat("b", 130)+" = 2\nfunction gtab.f"+strings.Repeat("c", 140)+"() end\n", "very long member names")
	}
	// function-type aliases (also chained) declared in ANOTHER file than the one that uses them
	for _, m := range []string{
		"---@type Handler\nlocal h = nil\nlocal r = h(1)\nprint(r)\n",
		"---@param cb Mid\nlocal function use(cb) return cb(2) end\nuse(nil)\n",
		"---@type Mid\nlocal h2 = nil\nprint(h2(3))\n---@type Handler | Mid\nlocal h3\nprint(h3(4))\n",
		"---@class Box\n---@field on Handler\nlocal box = {}\nbox.on(5)\nlocal q = box.on\nq(6)\n",
	} {
		out = append(out, c01Doc{m, "function-type alias declared in another file", "---@alias Handler fun(x: number): string\n---@alias Mid Handler\n---@alias Loop Loop2\n---@alias Loop2 Loop\n"})
	}
	// names and prefixes the analysis special-cases (_G, self, _ENV, require, a string or literal where a table name is
	// expected) in every syntactic role of a small statement list; thorough: every ordered pair of statements
	var sts []string
	for _, st := range c01RoleStatements {
		for _, sp := range c01SpecialNames {
			sts = append(sts, strings.ReplaceAll(st, "N", sp))
		}
	}
	for _, t := range sts {
		add(t+"\n", "special name in a syntactic role")
	}
	if tier == "thorough" {
		for _, sp := range c01SpecialNames {
			for _, s1 := range c01RoleStatements {
				for _, s2 := range c01RoleStatements {
					add(strings.ReplaceAll(s1+"\n"+s2+"\n", "N", sp), "special name in two syntactic roles")
				}
			}
		}
	}
	return out
}

var c01RoleStatements = []string{"N.x = 1", "N.x.y = 1", "N[1] = 1", "N[\"k\"] = 1", "N = 1", "local N = 1", "print(N.x)", "N.f()", "N:m()", "function N.f() end",
	"function N:m() end", "function N() end", "local function N() end", "for N = 1, 2 do end", "for N, v in pairs(t) do end", "N.x, N.y = 1, 2", "local t = {N = 1}", "t.N = 1",
	"return N", "N = N or {}", "N.x = N.x or 1", "setmetatable(N, {})", "local v = N[1].x", "N.x.y.z = 1", "N().x = 1", "N\"s\"", "N{}", "local v = N", "v = {N}", "N.x = function() end"}

var c01SpecialNames = []string{"_G", "self", "_ENV", "(\"_G\")", "(\"s\")", "require", "import", "_G._G", "_G.a", "a._G", "nil", "...", "(1)", "({})", "(function() end)", "\"_G\"", "[[s]]", "_G[\"a\"]", "require(\"o\")"}

func c01PositionSpace(tier string) *core.Space {
	docs := c01Docs(tier)
	return &core.Space{
		Name: "server-start-then-every-request-at-every-position", N: int64(len(docs)), Chunk: 20, RecycleEvery: 20, PerCaseTimeoutS: 60, ChunkTimeoutS: 240,
		Describe: func(i int64) interface{} { return map[string]interface{}{"m.lua": docs[i].text, "kind": docs[i].desc} },
		Run: func(i int64, r *core.Result) {
			d := docs[i]
			r.Evaluated++
			vrt.TakeRecovered()
			oth := otherLua
			if d.other != "" {
				oth = d.other
			}
			root := drv.NewWorkspace(map[string]string{"m.lua": d.text, "o.lua": oth})
			defer drv.RemoveWorkspace(root)
			fail := func(sig string, det map[string]interface{}) {
				det["m.lua"] = d.text
				r.Outcome(sig)
				r.Fail("positions", i, sig, d.text, det)
			}
			s, err := drv.Start(root, drv.Options{InitOptions: drv.AllChecks()})
			if err != nil {
				fail("no-answer-to-initialize", map[string]interface{}{"error": err.Error()})
				return
			}
			defer s.Close()
			if err := s.Open("m.lua", d.text); err != nil {
				fail("no-answer-after-didOpen", map[string]interface{}{"error": err.Error()})
				return
			}
			lines := textref.Lines(d.text)
			if len(lines) > 1 {
				r.Nontrivial++
			}
			for li := 0; li <= len(lines); li++ {
				n := 0
				if li < len(lines) {
					n = textref.Units(d.text[lines[li].Start:lines[li].End])
				}
				for ch := 0; ch <= n+2; ch++ {
					for _, k := range c01Requests {
						if (k == "documentSymbol" || k == "documentColor" || k == "getVarColor" || k == "codeLens" || k == "documentLink") && (li > 0 || ch > 0) {
							continue
						}
						r.Transitions++
						r.States++
						if err := c01Ask(s, "m.lua", k, li, ch); err != nil {
							fail("no-answer:"+k, map[string]interface{}{"position": fmt.Sprintf("%d:%d", li, ch), "error": err.Error()})
							return
						}
					}
				}
			}
			// workspace/symbol with every substring of length <= 2 of the identifiers
			seen := map[string]bool{"": true}
			for _, t := range luaref.Lex(d.text).Tokens {
				if t.Kind == luaref.Name {
					for a := 0; a < len(t.Text); a++ {
						for b := a + 1; b <= a+2 && b <= len(t.Text); b++ {
							seen[t.Text[a:b]] = true
						}
					}
				}
			}
			for q := range seen {
				r.Transitions++
				if _, err := s.WsSymbols(q); err != nil {
					if _, isRPC := err.(*drv.RPCError); !isRPC {
						fail("no-answer:workspace/symbol", map[string]interface{}{"query": q, "error": err.Error()})
						return
					}
				}
			}
			if bad := c01Swallowed(); len(bad) > 0 {
				site := bad[0]
				if k := strings.Index(site, ": "); k > 0 {
					site = site[:k]
				}
				fail("internal-fault-swallowed-by-recover@"+site, map[string]interface{}{"recovered": bad})
				return
			}
			r.Outcome("alive-and-answering")
			if i%211 == 0 {
				r.Sample(map[string]interface{}{"m.lua": d.text, "kind": d.desc, "layer": "server + every request at every position"})
			}
		},
	}
}

// ---- layer 4: message histories and configuration texts

type c01Ev struct {
	name string
	run  func(s *drv.Server, st *c01HistState) error
}

type c01HistState struct {
	open map[string]string
}

var c01Contents = []struct{ name, text string }{
	{"clean", "local x = 1\nprint(x)\n"},
	{"syntax-error", "local x = = 1\n"},
	{"alias-cycle", "---@alias A B\n---@alias B A\n---@type A\nlocal v = {}\nlocal w = v[1]\nprint(w)\n"},
	{"empty", ""},
}

func c01Events() []c01Ev {
	var evs []c01Ev
	files := []string{"a.lua", "b.lua"}
	for _, f := range files {
		f := f
		for _, c := range c01Contents {
			c := c
			evs = append(evs,
				c01Ev{"open(" + f + "," + c.name + ")", func(s *drv.Server, st *c01HistState) error { st.open[f] = c.text; return s.Open(f, c.text) }},
				c01Ev{"changeFull(" + f + "," + c.name + ")", func(s *drv.Server, st *c01HistState) error { st.open[f] = c.text; return s.ChangeFull(f, c.text) }},
				c01Ev{"create(" + f + "," + c.name + ")", func(s *drv.Server, st *c01HistState) error {
					os.WriteFile(filepath.Join(s.Root, f), []byte(c.text), 0o644)
					return s.Watched([]drv.FileEvent{{Rel: f, Type: 1}})
				}},
				c01Ev{"save(" + f + "," + c.name + ")", func(s *drv.Server, st *c01HistState) error {
					os.WriteFile(filepath.Join(s.Root, f), []byte(c.text), 0o644)
					st.open[f] = c.text
					return s.Save(f, c.text)
				}},
			)
		}
		evs = append(evs,
			c01Ev{"close(" + f + ")", func(s *drv.Server, st *c01HistState) error { delete(st.open, f); return s.CloseDoc(f) }},
			c01Ev{"delete(" + f + ")", func(s *drv.Server, st *c01HistState) error {
				os.Remove(filepath.Join(s.Root, f))
				return s.Watched([]drv.FileEvent{{Rel: f, Type: 3}})
			}},
			c01Ev{"changeOutOfRange(" + f + ")", func(s *drv.Server, st *c01HistState) error {
				return s.ChangeInc(f, []drv.Edit{{Range: drv.Range{Start: drv.Pos{Line: 99, Character: 0}, End: drv.Pos{Line: 99, Character: 5}}, Text: "x"}})
			}},
			c01Ev{"queriesThenResolveStaleItems(" + f + ")", func(s *drv.Server, st *c01HistState) error {
				// a long candidate list, then a shorter one, then completionItem/resolve of every item of the first list
				// (an editor resolves the item the user has highlighted, which may come from the previous list)
				comp := func(l, c int) ([]json.RawMessage, error) {
					raw, err := s.CallRaw("textDocument/completion", map[string]interface{}{"textDocument": map[string]interface{}{"uri": s.URI(f)},
						"position": map[string]interface{}{"line": l, "character": c}, "context": map[string]interface{}{"triggerKind": 1}})
					if err != nil {
						if _, isRPC := err.(*drv.RPCError); isRPC {
							return nil, nil
						}
						return nil, err
					}
					var items []json.RawMessage
					if json.Unmarshal(raw, &items) != nil {
						var wrapped struct {
							Items []json.RawMessage `json:"items"`
						}
						json.Unmarshal(raw, &wrapped)
						items = wrapped.Items
					}
					return items, nil
				}
				long, err := comp(1, 1)
				if err != nil {
					return err
				}
				if _, err := comp(0, 7); err != nil {
					return err
				}
				for _, it := range long {
					var item interface{}
					json.Unmarshal(it, &item)
					if _, err := s.CallRaw("completionItem/resolve", item); err != nil {
						if _, isRPC := err.(*drv.RPCError); !isRPC {
							return err
						}
					}
				}
				return nil
			}},
			c01Ev{"queries(" + f + ")", func(s *drv.Server, st *c01HistState) error {
				for _, p := range [][2]int{{0, 0}, {0, 7}, {4, 6}} {
					for _, k := range []string{"hover", "definition", "references", "completion", "documentSymbol"} {
						if err := c01Ask(s, f, k, p[0], p[1]); err != nil {
							return err
						}
					}
				}
				return nil
			}},
		)
	}
	cfg := func(name string, flags func() map[string]interface{}) c01Ev {
		return c01Ev{name, func(s *drv.Server, st *c01HistState) error {
			return s.Notify("workspace/didChangeConfiguration", flags())
		}}
	}
	all := make([]bool, 26)
	for i := range all {
		all[i] = true
	}
	evs = append(evs,
		cfg("configuration(valid)", func() map[string]interface{} { return c17Settings(all) }),
		cfg("configuration(invalid-regex)", func() map[string]interface{} {
			st := c17Settings(all)
			st["settings"].(map[string]interface{})["luahelper"].(map[string]interface{})["base"] = map[string]interface{}{"IgnoreFileOrDir": []string{"("}, "IgnoreFileOrDirError": []string{"[", "a.lua"}}
			return st
		}),
		c01Ev{"workspaceFolders(add,remove)", func(s *drv.Server, st *c01HistState) error {
			sub := filepath.Join(s.Root, "..", filepath.Base(s.Root)+"-extra")
			os.MkdirAll(sub, 0o755)
			os.WriteFile(filepath.Join(sub, "e.lua"), []byte("ge = 1\n"), 0o644)
			defer os.RemoveAll(sub)
			add := map[string]interface{}{"event": map[string]interface{}{"added": []interface{}{map[string]interface{}{"uri": "file://" + sub, "name": "extra"}}, "removed": []interface{}{}}}
			if err := s.Notify("workspace/didChangeWorkspaceFolders", add); err != nil {
				return err
			}
			rem := map[string]interface{}{"event": map[string]interface{}{"removed": []interface{}{map[string]interface{}{"uri": "file://" + sub, "name": "extra"}}, "added": []interface{}{}}}
			return s.Notify("workspace/didChangeWorkspaceFolders", rem)
		}},
	)
	// workspace folders the server already covers: the root itself, its parent, a sub-directory, the same outside folder twice
	wf := func(name string, uris func(s *drv.Server) (added, removed []string)) c01Ev {
		return c01Ev{name, func(s *drv.Server, st *c01HistState) error {
			a, rm := uris(s)
			mk := func(us []string) []interface{} {
				out := []interface{}{}
				for _, u := range us {
					out = append(out, map[string]interface{}{"uri": "file://" + u, "name": filepath.Base(u)})
				}
				return out
			}
			return s.Notify("workspace/didChangeWorkspaceFolders", map[string]interface{}{"event": map[string]interface{}{"added": mk(a), "removed": mk(rm)}})
		}}
	}
	evs = append(evs,
		wf("workspaceFolders(add the root again)", func(s *drv.Server) ([]string, []string) { return []string{s.Root}, nil }),
		wf("workspaceFolders(add the parent of the root)", func(s *drv.Server) ([]string, []string) { return []string{filepath.Dir(s.Root)}, nil }),
		wf("workspaceFolders(add a sub-directory, twice)", func(s *drv.Server) ([]string, []string) {
			os.MkdirAll(filepath.Join(s.Root, "subdir"), 0o755)
			return []string{filepath.Join(s.Root, "subdir"), filepath.Join(s.Root, "subdir")}, nil
		}),
		wf("workspaceFolders(remove the root)", func(s *drv.Server) ([]string, []string) { return nil, []string{s.Root} }),
	)
	return evs
}

func c01HistorySpace(depth int) *core.Space {
	evs := c01Events()
	K := int64(len(evs))
	n := int64(1)
	for i := 0; i < depth; i++ {
		n *= K
	}
	name := fmt.Sprintf("message-histories-depth%d", depth)
	decode := func(i int64) []int {
		ix := make([]int, depth)
		for k := depth - 1; k >= 0; k-- {
			ix[k] = int(i % K)
			i /= K
		}
		return ix
	}
	return &core.Space{
		Name: name, N: n, Chunk: 250, RecycleEvery: 20, PerCaseTimeoutS: 30, ChunkTimeoutS: 150,
		Describe: func(i int64) interface{} {
			var h []string
			for _, k := range decode(i) {
				h = append(h, evs[k].name)
			}
			return map[string]interface{}{"initial_workspace": "a.lua clean", "history": h}
		},
		Run: func(i int64, r *core.Result) {
			ix := decode(i)
			r.Evaluated++
			vrt.TakeRecovered()
			root := drv.NewWorkspace(map[string]string{"a.lua": c01Contents[0].text})
			defer drv.RemoveWorkspace(root)
			var h []string
			fail := func(sig string, det map[string]interface{}) {
				det["history"] = h
				r.Outcome(sig)
				r.Fail(name, i, sig, strings.Join(h, " "), det)
			}
			s, err := drv.Start(root, drv.Options{InitOptions: drv.AllChecks()})
			if err != nil {
				fail("no-answer-to-initialize", map[string]interface{}{"error": err.Error()})
				return
			}
			defer s.Close()
			st := &c01HistState{open: map[string]string{}}
			// requests are only sent for open documents, changes only for open documents (conformant client)
			for _, k := range ix {
				e := evs[k]
				f := ""
				if a := strings.Index(e.name, "("); a > 0 {
					f = strings.SplitN(strings.TrimSuffix(e.name[a+1:], ")"), ",", 2)[0]
				}
				_, isOpen := st.open[f]
				needsOpen := strings.HasPrefix(e.name, "change") || strings.HasPrefix(e.name, "close") || strings.HasPrefix(e.name, "queries") || strings.HasPrefix(e.name, "save")
				if needsOpen && !isOpen || strings.HasPrefix(e.name, "open") && isOpen {
					r.Count("histories_not_producible_by_a_conformant_client", 1)
					return
				}
				h = append(h, e.name)
				r.Transitions++
				if err := e.run(s, st); err != nil {
					fail("no-answer-after:"+strings.SplitN(e.name, "(", 2)[0], map[string]interface{}{"error": err.Error()})
					return
				}
			}
			if err := s.Barrier(); err != nil {
				fail("no-answer-at-end-of-history", map[string]interface{}{"error": err.Error()})
				return
			}
			r.States++
			r.Nontrivial++
			if bad := c01Swallowed(); len(bad) > 0 {
				site := bad[0]
				if k := strings.Index(site, ": "); k > 0 {
					site = site[:k]
				}
				fail("internal-fault-swallowed-by-recover@"+site, map[string]interface{}{"recovered": bad})
				return
			}
			r.Outcome("alive-and-answering")
			if i%4001 == 0 {
				r.Sample(map[string]interface{}{"history": h, "layer": "message histories"})
			}
		},
	}
}

// luahelper.json: every field with every value of a small domain, one field deviating at a time (thorough: two)
func c01ConfigSpace(tier string) *core.Space {
	fields := map[string][]interface{}{
		"BaseDir":               {"", "./", "nodir/", 5, nil},
		"ShowWarnFlag":          {0, 1, 7, "1", nil},
		"ReferMatchPathFlag":    {0, 1, "x"},
		"IgnoreFileNameVarFlag": {0, 1, []int{1}},
		"ProjectFiles":          {[]string{}, []string{"a.lua"}, []string{"missing.lua"}, "a.lua", []int{1}},
		"IgnoreModules":         {[]string{}, []string{"g"}, "g", []int{1}},
		"IgnoreWildcardModules": {[]string{"g*"}, []string{"("}, 3},
		"IgnoreFileVars":        {[]interface{}{map[string]interface{}{"File": "a.lua", "Vars": []string{"g"}}}, []interface{}{map[string]interface{}{"File": "(", "Vars": []string{}}}, "x"},
		"IgnoreReadFiles":       {[]string{"q.lua"}, 1},
		"IgnoreErrorTypes":      {[]int{}, []int{4}, []int{-1, 99}, []string{"4"}},
		"IgnoreFileOrFloder":    {[]string{"a.lua"}, []string{"("}, []string{"sub/"}, 2},
		"IgnoreFileErr":         {[]string{"a.lua"}, []string{"("}, []string{"[a-"}, 2},
		"IgnoreFileErrTypes":    {[]interface{}{map[string]interface{}{"File": "a.lua", "Types": []int{4}}}, []interface{}{map[string]interface{}{"File": "(", "Types": []int{4}}}, []interface{}{map[string]interface{}{"File": "*_gen.lua", "Types": []int{4}}}, []interface{}{map[string]interface{}{"File": 1}}, "x"},
		"IgnoreLocalNoUseVars":  {[]string{"x"}, 1},
		"ProtocolVars":          {[]string{"c2s"}, 1},
		"ProtocolPreIngoreFlag": {0, 1, "1"},
		"ReferFrameFiles":       {[]interface{}{map[string]interface{}{"Name": "import", "type": 2, "SuffixFlag": 0}}, []interface{}{map[string]interface{}{"Name": "", "type": 9}}, []interface{}{map[string]interface{}{"Name": "imp(ort", "type": 2, "SuffixFlag": 1}}, []interface{}{map[string]interface{}{"Name": "load*+", "type": 1}}, "x"},
		"PathSeparator":         {".", "/", "", "::", 1},
		"AnntotateSets":         {[]interface{}{map[string]interface{}{"FuncName": "f", "ParamIndex": 1}}, []interface{}{map[string]interface{}{"FuncName": "f", "ParamIndex": -1, "SplitFlag": 1}}, 1},
		"OtherDir":              {"", "other", "/nonexistent", 1},
		"OpenErrorTypes":        {[]int{2}, []int{99}, "x"},
	}
	var names []string
	for k := range fields {
		names = append(names, k)
	}
	sortStrings(names)
	type cfg struct{ m map[string]interface{} }
	var cases []cfg
	cases = append(cases, cfg{map[string]interface{}{}})
	for _, n := range names {
		for _, v := range fields[n] {
			cases = append(cases, cfg{map[string]interface{}{n: v}})
			if n != "ShowWarnFlag" {
				// the same deviation with warnings shown and an entry file: ignore rules are then consulted for real
				// diagnostics and the project-wide pass runs
				cases = append(cases, cfg{map[string]interface{}{n: v, "ShowWarnFlag": 1}})
				if n != "ProjectFiles" {
					cases = append(cases, cfg{map[string]interface{}{n: v, "ShowWarnFlag": 1, "ProjectFiles": []string{"a.lua"}}})
				}
			}
		}
	}
	if tier == "thorough" {
		for a, n1 := range names {
			for _, n2 := range names[a+1:] {
				for _, v1 := range fields[n1] {
					for _, v2 := range fields[n2] {
						cases = append(cases, cfg{map[string]interface{}{n1: v1, n2: v2}})
					}
				}
			}
		}
	}
	texts := []string{"", "{", "null", "[]", "{\"ShowWarnFlag\": }", "\xef\xbb\xbf{}"}
	return &core.Space{
		Name: "luahelper.json-field-deviations", N: int64(len(cases) + len(texts)), Chunk: 50, RecycleEvery: 20, PerCaseTimeoutS: 60,
		Describe: func(i int64) interface{} {
			if int(i) < len(cases) {
				return map[string]interface{}{"luahelper.json": cases[i].m}
			}
			return map[string]interface{}{"luahelper.json_text": texts[int(i)-len(cases)]}
		},
		Run: func(i int64, r *core.Result) {
			var txt string
			if int(i) < len(cases) {
				b, _ := json.Marshal(cases[i].m)
				txt = string(b)
			} else {
				txt = texts[int(i)-len(cases)]
			}
			r.Evaluated++
			r.States++
			r.Nontrivial++
			vrt.TakeRecovered()
			// a.lua and sub/b.lua require each other (a cycle the project-wide pass must survive); a.lua carries diagnostics
			files := map[string]string{"luahelper.json": txt, "a.lua": "local x = 1\nprint(g, x)\nlocal m = require(\"sub.b\")\nlocal unused = gundefined\n",
				"sub/b.lua": "g = 1\nlocal back = require(\"a\")\nreturn {back}\n", "other/o.lua": "---@class OC\n"}
			root := drv.NewWorkspace(files)
			defer drv.RemoveWorkspace(root)
			fail := func(sig string, det map[string]interface{}) {
				det["luahelper.json"] = txt
				r.Outcome(sig)
				r.Fail("config", i, sig, txt, det)
			}
			s, err := drv.Start(root, drv.Options{InitOptions: drv.AllChecks()})
			if err != nil {
				if _, isRPC := err.(*drv.RPCError); isRPC {
					r.Outcome("configuration-rejected-with-an-error-response")
					return
				}
				fail("no-answer-to-initialize", map[string]interface{}{"error": err.Error()})
				return
			}
			defer s.Close()
			s.Open("a.lua", files["a.lua"])
			r.Transitions += 3
			for _, k := range []string{"hover", "definition", "references", "completion", "documentSymbol"} {
				if err := c01Ask(s, "a.lua", k, 1, 6); err != nil {
					fail("no-answer:"+k, map[string]interface{}{"error": err.Error()})
					return
				}
				r.Transitions++
			}
			if bad := c01Swallowed(); len(bad) > 0 {
				fail("internal-fault-swallowed-by-recover", map[string]interface{}{"recovered": bad})
				return
			}
			r.Outcome("alive-and-answering")
			if i%97 == 0 {
				r.Sample(map[string]interface{}{"luahelper.json": txt, "layer": "configuration"})
			}
		},
	}
}

// class hierarchies and alias shapes of C15 (cyclic, split over files): only liveness is judged here; a crash or
// hang is attributed by the parent, the member oracle belongs to C15
func c01ClassSpace(tier string) *core.Space {
	inner := c15Space(tier)
	return &core.Space{Name: "class-hierarchies-and-alias-cycles(liveness)", N: inner.N, Chunk: inner.Chunk, RecycleEvery: inner.RecycleEvery, PerCaseTimeoutS: 60,
		Describe: inner.Describe,
		Run: func(i int64, r *core.Result) {
			var scratch core.Result
			vrt.TakeRecovered()
			inner.Run(i, &scratch)
			r.Evaluated++
			r.States++
			r.Transitions += scratch.Transitions
			for _, f := range scratch.Failures {
				if strings.Contains(f.Sig, "request-error") || strings.Contains(f.Sig, "server-start-failed") {
					r.Fail("classes", i, "no-answer:"+f.Sig, fmt.Sprint(inner.Describe(i)), map[string]interface{}{"case": inner.Describe(i)})
				}
			}
			if bad := c01Swallowed(); len(bad) > 0 {
				r.Fail("classes", i, "internal-fault-swallowed-by-recover", fmt.Sprint(inner.Describe(i)), map[string]interface{}{"recovered": bad, "case": inner.Describe(i)})
			}
		}}
}

func sortStrings(s []string) {
	for i := 1; i < len(s); i++ {
		for j := i; j > 0 && s[j] < s[j-1]; j-- {
			s[j], s[j-1] = s[j-1], s[j]
		}
	}
}

func init() {
	core.Register(&core.Check{
		ID:        "C01",
		Technique: "bounded-exhaustive enumeration in four layers (all small byte/token strings through the front end; small programs, mutants and annotation blocks through a full server start followed by every request at every position; all conformant message histories up to a depth; every one-/two-field deviation of luahelper.json) with process-level crash/hang attribution and visibility of swallowed panics",
		Rule: "layer 1: every string of <=3 (quick) / <=4 (thorough) symbols over 29 bytes chosen to hit every lexer branch, every string of <=2 / <=3 tokens over 69 lexemes, through parser.BeginAnalyze and AnnotateFile.AnalysisAllComment; layer 2+3: degenerate documents, scope programs, statement-form mutants and annotation blocks (cyclic classes/aliases, truncated lines): initialize, didOpen, then 14 request kinds at every (line, character) up to one line and two columns beyond the text, workspace/symbol with every substring <=2; " +
			"layer 4: every history of depth <=2 / <=3 over 49 events (open/change/save/create with 4 contents incl. a cyclic alias, close, delete, unappliable change, queries, valid and invalid-regex configuration changes, workspace folder add/remove) that a conformant client can produce; layer 5: luahelper.json with every field at every value of a small domain (absent, zero, typical, wrong JSON type, invalid regex), one (thorough: two) deviating. " +
			"oracle: the process stays alive (a dying worker is re-run case by case and confirmed three times), every request is answered, no recover() swallows a value other than the two deliberate sentinels. states = requests/histories/configurations answered",
		Assumptions: []string{"a hang is a case that does not return within 20-60 s when run alone (10^4-10^5 times its normal duration)", "deadlocks of the concurrent shell are reported by C10's exploration", "*lexer.TooManyErr and annotatelexer.ParseAnnotateErr are the deliberate recover() sentinels"},
		Flavour:     "inst-pass", QuickBudgetS: 300, ThoroughBudgetS: 1800,
		Spaces: func(tier string) []*core.Space {
			if tier == "thorough" {
				return []*core.Space{c01ByteSpace(4), c01TokenSpace(3), c01PositionSpace(tier), c01HistorySpace(1), c01HistorySpace(2), c01HistorySpace(3), c01ConfigSpace(tier), c01ClassSpace(tier), c01TypedSpace(tier)}
			}
			return []*core.Space{c01ByteSpace(3), c01TokenSpace(2), c01PositionSpace(tier), c01HistorySpace(1), c01HistorySpace(2), c01ConfigSpace(tier), c01ClassSpace(tier), c01TypedSpace(tier)}
		},
	})
}
