package checks

import (
	"fmt"
	"sort"
	"strings"

	"verif/internal/core"
	"verif/internal/drv"
	"verif/internal/luaref"
	"verif/internal/textref"
)

// C11: rename rewrites exactly the variable's occurrences and preserves meaning.

// applyEdits applies non-overlapping text edits to text (ranges in UTF-16 positions).
func applyEdits(text string, edits []drv.TextEdit) (string, bool) {
	type off struct {
		s, e int
		t    string
	}
	var os []off
	for _, ed := range edits {
		s, _, ok1 := textref.Offset(text, textref.Pos{Line: ed.Range.Start.Line, Char: ed.Range.Start.Character})
		e, _, ok2 := textref.Offset(text, textref.Pos{Line: ed.Range.End.Line, Char: ed.Range.End.Character})
		if !ok1 || !ok2 || s > e {
			return text, false
		}
		os = append(os, off{s, e, ed.NewText})
	}
	sort.Slice(os, func(i, j int) bool { return os[i].s > os[j].s })
	for i := 1; i < len(os); i++ {
		if os[i].e > os[i-1].s {
			return text, false // overlap
		}
	}
	for _, o := range os {
		text = text[:o.s] + o.t + text[o.e:]
	}
	return text, true
}

// bindingShape lists, in source order, for every occurrence its kind and the index of its declaration.
func bindingShape(b *luaref.Binding) string {
	var sb strings.Builder
	for _, o := range b.Occs {
		fmt.Fprintf(&sb, "%s:%d ", o.Kind, o.Decl)
	}
	return sb.String()
}

func c11Space(d scopeSpaceDef) *core.Space {
	return &core.Space{
		Name: d.name, N: d.count(), Chunk: 200, RecycleEvery: 30,
		Describe: func(i int64) interface{} { return caseDesc(d.at(i)) },
		Run: func(i int64, r *core.Result) {
			c := d.at(i)
			r.Evaluated++
			if c.Bind == nil {
				return
			}
			s, root, err := c.start(drv.AllChecks())
			if err != nil {
				r.Fail(d.name, i, "server-start-failed", c.Text, map[string]interface{}{"error": err.Error()})
				return
			}
			defer drv.RemoveWorkspace(root)
			defer s.Close()
			baseDiags := s.DiagView()
			if len(c.Bind.Occs) > 2 {
				r.Nontrivial++
			}
			doneFresh := map[string]bool{}
			var later []func()
			for _, o := range c.Bind.Occs {
				or := rng(c.Text, o.Span)
				if o.Decl < 0 && len(c.globalDefs(o.Name)) == 0 {
					r.Count("dont_care_never_defined_global", 1)
					continue
				}
				for _, newName := range []string{"zz", o.Name + "_"} {
					edits, err := s.Rename("m.lua", or.Start.Line, or.Start.Character, newName)
					r.Transitions++
					if err != nil {
						r.Fail(d.name, i, "rename-request-error", c.Text, map[string]interface{}{"error": err.Error()})
						continue
					}
					if len(edits) == 0 {
						r.Outcome("not-renameable")
						r.Count("occurrences_not_accepted_for_rename", 1)
						continue
					}
					r.States++
					fail := func(sig string, det map[string]interface{}) {
						r.Outcome(sig)
						var es []fileRange
						for f, l := range edits {
							for _, e := range l {
								es = append(es, fileRange{f, e.Range})
							}
						}
						coreS := fmt.Sprintf("%s | query %s | edits %s", sig, lineAt(c.Text, or), c.frLines(es))
						det["failure_core"] = coreS
						det["case"] = caseDesc(c)
						det["position"] = fmt.Sprintf("%d:%d", or.Start.Line, or.Start.Character)
						det["new_name"] = newName
						r.Fail(d.name, i, sig, coreS, det)
					}
					// (ii) every edit covers an identifier spelled with the old name, (i) no overlaps
					bad := false
					var all []fileRange
					for f, l := range edits {
						txt, known := c.Files[f]
						if !known {
							fail("edit-in-unknown-file", map[string]interface{}{"file": f})
							bad = true
							break
						}
						for _, e := range l {
							all = append(all, fileRange{f, e.Range})
							so, _, ok1 := textref.Offset(txt, textref.Pos{Line: e.Range.Start.Line, Char: e.Range.Start.Character})
							eo, _, ok2 := textref.Offset(txt, textref.Pos{Line: e.Range.End.Line, Char: e.Range.End.Character})
							if !ok1 || !ok2 || so > eo || txt[so:eo] != o.Name || e.NewText != newName {
								fail("edit-does-not-cover-the-old-identifier", map[string]interface{}{"edit": fmt.Sprint(f, e.Range), "covered_text": safeSlice(txt, so, eo)})
								bad = true
							}
						}
						if _, ok := applyEdits(txt, l); !ok {
							fail("overlapping-or-invalid-edits", map[string]interface{}{"file": f})
							bad = true
						}
					}
					if bad {
						continue
					}
					// (iii) the edits are exactly the occurrence class
					var want []fileRange
					if o.Decl >= 0 {
						want = c.localOccs(o.Decl)
					} else {
						want = c.globalOccs(o.Name)
					}
					if ws, gs := frSet(want), frSet(all); ws != gs {
						kind := "edits-miss-occurrences"
						wm := map[string]bool{}
						for _, w := range want {
							wm[w.String()] = true
						}
						for _, g := range all {
							if !wm[g.String()] {
								kind = "edits-touch-another-variable"
							}
						}
						gm := map[string]bool{}
						for _, g := range all {
							gm[g.String()] = true
						}
						var miss, ext []fileRange
						for _, w := range want {
							if !gm[w.String()] {
								miss = append(miss, w)
							}
						}
						for _, g := range all {
							if !wm[g.String()] {
								ext = append(ext, g)
							}
						}
						sig := fmt.Sprintf("%s:bound-to-%s", kind, declKind(c, o.Decl))
						r.Outcome(sig)
						coreS := fmt.Sprintf("%s | query %s | missing %s | extra %s", sig, lineAt(c.Text, or), c.frLines(miss), c.frLines(ext))
						r.Fail(d.name, i, sig, coreS, map[string]interface{}{"failure_core": coreS, "case": caseDesc(c), "position": fmt.Sprintf("%d:%d", or.Start.Line, or.Start.Character),
							"new_name": newName, "expected": ws, "server": gs})
						continue
					}
					// (iv) applying the edit preserves the binding structure of every file
					newFiles := map[string]string{}
					for f, t := range c.Files {
						newFiles[f] = t
					}
					okAll := true
					for f, l := range edits {
						nt, _ := applyEdits(c.Files[f], l)
						newFiles[f] = nt
						p2 := luaref.Parse(nt)
						if p2.Err != nil {
							fail("renamed-program-not-valid", map[string]interface{}{"file": f, "text": nt})
							okAll = false
							break
						}
						var oldShape string
						if f == "m.lua" {
							oldShape = bindingShape(c.Bind)
						} else {
							oldShape = bindingShape(c.Other[f])
						}
						if ns := bindingShape(luaref.Bind(p2.Chunk)); ns != oldShape {
							fail("binding-structure-changed", map[string]interface{}{"file": f, "text": nt, "before": oldShape, "after": ns})
							okAll = false
							break
						}
					}
					if !okAll {
						continue
					}
					r.Outcome("rename-exact")
					// (v) a fresh server on the renamed workspace reports the same diagnostics up to the name
					key := fmt.Sprint(o.Decl, o.Name, newName)
					if newName == "zz" && !doneFresh[key] {
						doneFresh[key] = true
						// run once the server under test is closed: two live servers in one process disturb each other
						later = append(later, func() {
							root2 := drv.NewWorkspace(newFiles)
							s2, err := drv.Start(root2, drv.Options{InitOptions: drv.AllChecks()})
							if err == nil {
								s2.Open("m.lua", newFiles["m.lua"])
								got := s2.DiagView()
								s2.Close()
								r.Transitions += 2
								norm := func(v string) string {
									// positions after a renamed occurrence on the same line shift by the length difference: compare types and lines only
									var out []string
									for _, l := range strings.Split(v, "\n") {
										if l == "" {
											continue
										}
										file := l[:strings.Index(l, ":")]
										for _, dg := range strings.Split(l[strings.Index(l, ":")+2:], " ; ") {
											t := dg[:strings.Index(dg, "@")]
											ln := dg[strings.Index(dg, "@")+1:]
											ln = ln[:strings.Index(ln, ":")]
											out = append(out, file+":"+t+"@"+ln)
										}
									}
									sort.Strings(out)
									return strings.Join(out, " ")
								}
								if norm(got) != norm(baseDiags) {
									fail("diagnostics-change-after-rename", map[string]interface{}{"before": baseDiags, "after": got, "renamed_files": newFiles})
								}
							}
							drv.RemoveWorkspace(root2)
						})
					}
				}
			}
			s.Close()
			for _, f := range later {
				f()
			}
			if i%499 == 0 {
				r.Sample(map[string]interface{}{"m.lua": c.Text, "occurrences": len(c.Bind.Occs)})
			}
		},
	}
}

func safeSlice(s string, a, b int) string {
	if a < 0 || b > len(s) || a > b {
		return "?"
	}
	return s[a:b]
}

func init() {
	core.Register(&core.Check{
		ID:        "C11",
		Technique: "bounded-exhaustive program enumeration (every renameable occurrence of every program of the statement alphabets, two new names) on the real server; oracle: reference binder occurrence classes plus re-binding of the renamed program and a fresh server on the renamed workspace",
		Rule: "for every name occurrence of every enumerated program (spaces of C05 up to 3 nodes) textDocument/rename is requested with the fresh names zz and <old>_; the edits must (i) not overlap, (ii) each cover an identifier spelled with the old name, (iii) equal the reference occurrence class, " +
			"(iv) applied to the files give programs with the same binding structure (reference binder on the edited text), (v) a fresh server on the edited workspace publishes the same diagnostic types on the same lines. states = accepted renames judged; non-trivial = programs with >2 occurrences",
		Assumptions: []string{"names that no file ever assigns are not judged (as in C06)", "diagnostics are compared by (file, type, line) because columns shift with the new name's length"},
		Flavour:     "prod+overlay", QuickBudgetS: 420, ThoroughBudgetS: 3600,
		Spaces: func(tier string) []*core.Space {
			forms, structure, _ := scopeAlphabets()
			one := otherVariants[:1]
			sp := []*core.Space{
				c11Space(scopeSpaceDef{"forms-1node", forms, 1, 1, otherVariants, 1, false, nil}),
				c11Space(scopeSpaceDef{name: "sibling-blocks-on-one-line", others: otherVariants[:1], fixed: siblingBlockPrograms()}),
				c11Space(scopeSpaceDef{"structure<=2-all-second-files", structure, 1, 2, otherVariants, 1, false, nil}),
				c11Space(scopeSpaceDef{"structure<=2-on-one-line", structure, 1, 2, one, 1, true, nil}),
			}
			if tier == "thorough" {
				sp = append(sp, c11Space(scopeSpaceDef{"structure-3nodes", structure, 3, 3, one, 1, false, nil}))
			} else {
				sp = append(sp, c11Space(scopeSpaceDef{"structure-3nodes-first-60000", structure, 3, 3, one, 60000, false, nil}))
			}
			return sp
		},
	})
}
