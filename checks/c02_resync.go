package checks

import (
	"fmt"

	"verif/internal/core"
	"verif/internal/drv"
	"verif/internal/textref"
)

// "A change the server cannot apply must not leave it silently working on stale text": whatever the server does with a
// didChange whose range lies outside the document (a line beyond the last one; alone, or as the second entry of a batch
// whose first entry is fine), the didSave that follows carries the client's full text and must leave the server with
// exactly that text; edits after the save are then judged as usual.

type c02Bad struct {
	name string
	mk   func(text string) []drv.Edit
}

func c02BadEdits() []c02Bad {
	last := func(text string) int { return len(textref.Lines(text)) - 1 }
	rg := func(l1, c1, l2, c2 int, ins string) drv.Edit {
		return drv.Edit{Range: drv.Range{Start: drv.Pos{Line: l1, Character: c1}, End: drv.Pos{Line: l2, Character: c2}}, Text: ins}
	}
	return []c02Bad{
		{"insert one line beyond the last", func(t string) []drv.Edit { n := last(t); return []drv.Edit{rg(n+1, 0, n+1, 0, "x")} }},
		{"insert far beyond the last line", func(t string) []drv.Edit { n := last(t); return []drv.Edit{rg(n+6, 0, n+6, 0, "x\n")} }},
		{"replace from the start to beyond the last line", func(t string) []drv.Edit { n := last(t); return []drv.Edit{rg(0, 0, n+4, 0, "y")} }},
		{"delete a range that lies beyond the last line", func(t string) []drv.Edit { n := last(t); return []drv.Edit{rg(n+2, 0, n+3, 0, "")} }},
		{"batch: a fine insert, then an insert beyond the last line", func(t string) []drv.Edit {
			n := last(t)
			return []drv.Edit{rg(0, 0, 0, 0, "z"), rg(n+5, 0, n+5, 0, "x")}
		}},
	}
}

func c02ResyncSpace(docs, saves []string) *core.Space {
	name := "save-resynchronises-after-a-change-outside-the-document"
	bads := c02BadEdits()
	nb, ns := int64(len(bads)), int64(len(saves)+2)
	at := func(i int64) (d string, b c02Bad, save string) {
		d = docs[i/(nb*ns)]
		b = bads[(i/ns)%nb]
		k := i % ns
		switch {
		case k < int64(len(saves)):
			save = saves[k]
		case k == int64(len(saves)):
			save = d
		default:
			save = d + "x"
		}
		return
	}
	return &core.Space{
		Name: name, N: int64(len(docs)) * nb * ns, Chunk: 200, RecycleEvery: 50,
		Describe: func(i int64) interface{} {
			d, b, save := at(i)
			return map[string]interface{}{"opened_with": d, "change_outside_the_document": b.name, "entries": fmt.Sprint(b.mk(d)), "saved_text": save}
		},
		Setup: func() { c02SharedServer() },
		Run: func(i int64, r *core.Result) {
			d, b, save := at(i)
			srv := c02Srv
			r.Evaluated++
			r.Nontrivial++
			if _, open := c02Cached(srv); open {
				srv.CloseDoc("a.lua")
			}
			fail := func(sig string, det map[string]interface{}) {
				det["opened_with"], det["change_outside_the_document"], det["saved_text"] = d, b.name, save
				r.Outcome(sig)
				r.Fail(name, i, sig, fmt.Sprintf("%s | %q | %s | %q", sig, d, b.name, save), det)
			}
			if err := srv.Open("a.lua", d); err != nil {
				fail("transport-error", map[string]interface{}{"error": err.Error()})
				return
			}
			if err := srv.ChangeInc("a.lua", b.mk(d)); err != nil {
				fail("transport-error", map[string]interface{}{"error": err.Error()})
				return
			}
			// nothing is required of the text here: the client and the server may disagree until the save
			if err := srv.Save("a.lua", save); err != nil {
				fail("transport-error", map[string]interface{}{"error": err.Error()})
				return
			}
			r.Transitions += 3
			got, open := c02Cached(srv)
			if !open || got != save {
				fail("server-text-is-not-the-saved-text-after-a-change-it-could-not-apply", map[string]interface{}{"server_open": open, "server": got})
				return
			}
			r.States++
			// edits after the save: each from the saved text (restored by a full-text change, which does not depend on didSave)
			for _, e := range c02Edits(save, false) {
				want, ok := textref.Apply(save, e.S, e.E, e.Ins)
				if !ok {
					continue
				}
				srv.ChangeFull("a.lua", save)
				if err := c02Send(srv, c02Event{Kind: "inc", Ed: []c02Edit{e}}); err != nil {
					fail("transport-error", map[string]interface{}{"error": err.Error()})
					return
				}
				r.Transitions += 2
				if got, _ := c02Cached(srv); got != want {
					fail("edit-after-the-resynchronising-save-applied-to-another-text", map[string]interface{}{"edit": c02Event{Kind: "inc", Ed: []c02Edit{e}}.String(), "expected": want, "server": got})
					return
				}
			}
			r.Outcome("resynchronised")
			if i%997 == 0 {
				r.Sample(map[string]interface{}{"opened_with": d, "change_outside_the_document": b.name, "saved_text": save})
			}
		},
	}
}
