package checks

import (
	"fmt"
	"strings"

	"luahelper-lsp/langserver/check/annotation/annotateast"
	"luahelper-lsp/langserver/check/annotation/annotateparser"
	"luahelper-lsp/langserver/check/compiler/lexer"

	"verif/internal/annref"
	"verif/internal/core"
	"verif/internal/drv"
)

// C16: every documented annotation form is accepted with its structure intact.

// sexp converts the implementation's type tree into the canonical S-expression of annref.
func sexp(t annotateast.Type) string {
	switch x := t.(type) {
	case *annotateast.NormalType:
		return "(name " + x.StrName + ")"
	case *annotateast.MultiType:
		if len(x.TypeList) == 1 {
			return sexp(x.TypeList[0])
		}
		var a []string
		for _, e := range x.TypeList {
			a = append(a, sexp(e))
		}
		return "(union " + strings.Join(a, " ") + ")"
	case *annotateast.ArrayType:
		return "(arr " + sexp(x.ItemType) + ")"
	case *annotateast.TableType:
		if x.EmptyFlag {
			return "(table)"
		}
		return "(table " + sexp(x.KeyType) + " " + sexp(x.ValueType) + ")"
	case *annotateast.FuncType:
		var ps, rs []string
		for i, n := range x.ParamNameList {
			opt := ""
			if i < len(x.ParamOptionList) && x.ParamOptionList[i] {
				opt = "?"
			}
			pt := "(none)"
			if i < len(x.ParamTypeList) {
				pt = sexp(x.ParamTypeList[i])
			}
			ps = append(ps, "("+n+opt+" "+pt+")")
		}
		for _, r := range x.ReturnTypeList {
			rs = append(rs, sexp(r))
		}
		return "(fun (" + strings.Join(ps, " ") + ") (" + strings.Join(rs, " ") + "))"
	case nil:
		return "(nil)"
	}
	return fmt.Sprintf("(unknown %T)", t)
}

// flattenUnion makes nested unions comparable: (union a (union b c)) == (union a b c)
func parseLine(line string) (annotateast.AnnotateFragment, int) {
	s := strings.TrimPrefix(line, "--")
	ci := &lexer.CommentInfo{LineVec: []lexer.CommentLine{{Str: s, Line: 1, Col: 2}}, ShortFlag: true, HeadFlag: true}
	fr, errs := annotateparser.ParseCommentFragment(ci)
	return fr, len(errs)
}

// ---- type derivations by node count

var c16Names = []string{"string", "People"}

// typesOf returns all type expressions with exactly n constructor nodes (text form).
var c16TypeMemo = map[int][]string{}

func c16Types(n int) []string {
	if v, ok := c16TypeMemo[n]; ok {
		return v
	}
	var out []string
	if n == 1 {
		out = append(out, c16Names...)
		out = append(out, "table", "fun()")
	} else {
		for _, t := range c16Types(n - 1) {
			out = append(out, wrapPostfix(t)+"[]", "fun(p: "+t+")", "fun(): "+t, "("+t+")[]")
		}
		for a := 1; a <= n-2; a++ {
			for _, t := range c16Types(a) {
				for _, u := range c16Types(n - 1 - a) {
					pt := t
					if strings.Contains(t, "): ") || strings.HasSuffix(t, ")") && strings.Contains(t, "fun(") && strings.Contains(t, ":") {
						pt = "(" + t + ")" // a fun type with a return list swallows a following ", T"
					}
					out = append(out, t+" | "+u, "table<"+pt+", "+u+">", "fun(p: "+pt+", q?: "+u+")", "fun(p?: "+pt+", q: "+u+")", "table<"+pt+" | "+pt+", "+u+">", "fun(p: "+t+"): "+u, "("+t+" | "+u+")[]")
					if n-1-a == 1 && a == 1 {
						out = append(out, "fun(): "+t+", "+u)
					}
				}
			}
		}
	}
	c16TypeMemo[n] = out
	return out
}

// wrapPostfix parenthesises union / fun-with-return types before a [] suffix is attached
func wrapPostfix(t string) string {
	if strings.Contains(t, "|") && !strings.HasPrefix(t, "(") && !strings.HasPrefix(t, "table<") && !strings.HasPrefix(t, "fun(") {
		return "(" + t + ")"
	}
	if strings.HasPrefix(t, "fun(") {
		return "(" + t + ")"
	}
	return t
}

type c16Line struct {
	text  string
	kind  string
	types []string // the type expressions the line contains, in order
}

func c16Lines(maxNodes int) []c16Line {
	var ts []string
	for n := 1; n <= maxNodes; n++ {
		ts = append(ts, c16Types(n)...)
	}
	var out []c16Line
	for _, t := range ts {
		for _, cm := range []string{"", " @a comment"} {
			out = append(out,
				c16Line{"---@type " + t + cm, "type", []string{t}},
				c16Line{"---@field name " + t + cm, "field", []string{t}},
				c16Line{"---@param p " + t + cm, "param", []string{t}},
				c16Line{"---@return " + t + cm, "return", []string{t}},
				c16Line{"---@alias Al " + t + cm, "alias", []string{t}},
			)
		}
		out = append(out,
			c16Line{"---@field public name " + t, "field", []string{t}},
			c16Line{"---@field private name " + t, "field", []string{t}},
			c16Line{"---@field protected name " + t, "field", []string{t}},
			c16Line{"---@param p? " + t, "param", []string{t}},
			c16Line{"---@vararg " + t, "vararg", []string{t}},
		)
	}
	// names that are also words of the annotation language (the documentation allows any identifier as a name)
	// ("public"/"protected"/"private" directly behind ---@field and "const" directly behind ---@param are modifiers there)
	for _, nm := range []string{"enum", "const", "fun", "table", "class", "type", "field", "alias", "generic", "end", "start"} {
		out = append(out,
			c16Line{"---@field " + nm + " number", "field", []string{"number"}},
			c16Line{"---@field public " + nm + " string", "field", []string{"string"}},
			c16Line{"---@type fun(" + nm + ": number): string", "type", []string{"fun(" + nm + ": number): string"}},
		)
		if nm != "const" {
			out = append(out, c16Line{"---@param " + nm + " People", "param", []string{"People"}})
		}
	}
	small := append(append([]string{}, c16Types(1)...), c16Types(2)...)
	for _, t := range small {
		for _, u := range small {
			if !strings.Contains(t, "fun(") && !strings.Contains(u, "fun(") {
				out = append(out, c16Line{"---@return " + t + "?, " + u + " @c1 @c2", "return", []string{t, u}},
					c16Line{"---@return " + t + ", " + u + "?", "return", []string{t, u}},
					c16Line{"---@return " + t + "?", "return", []string{t}},
					c16Line{"---@return " + t + ", " + u + " @c1 @c2", "return", []string{t, u}},
					c16Line{"---@type " + t + ", " + u, "type", []string{t, u}})
			}
		}
	}
	for _, l := range []string{"---@class C", "---@class C @comment", "---@class C : P", "---@class C : P, Q", "---@class C : P, Q @comment", "---@class C : C, P", "---@class C : P, C @comment",
		"---@generic T", "---@generic T : P", "---@generic T : P, K", "---@generic T, K : Q", "---@generic K, T : Q @comment", "---@generic K : P, T : Q", "---@generic A, B, C : P",
		"---@overload fun(p: string): People", "---@overload fun()",
		"---@enum start", "---@enum end", "---@enum start @comment"} {
		out = append(out, c16Line{l, "other", nil})
	}
	return out
}

func c16StateTypes(st annotateast.AnnotateState) ([]annotateast.Type, bool) {
	switch x := st.(type) {
	case *annotateast.AnnotateTypeState:
		return x.ListType, true
	case *annotateast.AnnotateFieldState:
		return []annotateast.Type{x.FiledType}, true
	case *annotateast.AnnotateParamState:
		return []annotateast.Type{x.ParamType}, true
	case *annotateast.AnnotateReturnState:
		return x.ReturnTypeList, true
	case *annotateast.AnnotateAliasState:
		return []annotateast.Type{x.AliasType}, true
	case *annotateast.AnnotateVarargState:
		return []annotateast.Type{x.VarargType}, true
	}
	return nil, false
}

func c16PureSpace(maxNodes int) *core.Space {
	lines := c16Lines(maxNodes)
	name := fmt.Sprintf("documented-lines-types<=%d-nodes", maxNodes)
	return &core.Space{
		Name: name, N: int64(len(lines)), Chunk: 5000,
		Describe: func(i int64) interface{} { return map[string]interface{}{"line": lines[i].text} },
		Run: func(i int64, r *core.Result) {
			l := lines[i]
			r.Evaluated++
			r.States++
			r.Transitions++
			// the reference must accept its own generator's types
			var want []string
			for _, t := range l.types {
				sx, err := annref.ParseType(t)
				if err != nil {
					r.Fail(name, i, "generator-type-rejected-by-reference", l.text, map[string]interface{}{"line": l.text, "error": err.Error()})
					return
				}
				want = append(want, sx)
			}
			if len(l.types) > 0 && strings.ContainsAny(l.types[0], "|[<(") {
				r.Nontrivial++
			}
			fr, nerr := parseLine(l.text)
			if i%2003 == 0 {
				r.Sample(map[string]interface{}{"line": l.text, "reference_structure": want, "parse_errors": nerr})
			}
			fail := func(sig string, det map[string]interface{}) {
				r.Outcome(sig)
				det["line"] = l.text
				// core: the line with identifiers kept (lines are short)
				r.Fail(name, i, sig, l.text, det)
			}
			if nerr > 0 || len(fr.Stats) != 1 {
				fail("documented-line-not-accepted:"+l.kind, map[string]interface{}{"parse_errors": nerr, "states": len(fr.Stats)})
				return
			}
			if len(l.types) == 0 {
				// class / generic lines: the names must be paired with the parents written behind them
				if want, ok := c16NamesAndParents(l.text); ok {
					got := "(another statement)"
					switch x := fr.Stats[0].(type) {
					case *annotateast.AnnotateClassState:
						got = x.Name + ":" + strings.Join(x.ParentNameList, "+")
					case *annotateast.AnnotateGenericState:
						var ps []string
						for k, n := range x.NameList {
							par := "(no entry)"
							if k < len(x.ParentNameList) {
								par = x.ParentNameList[k]
							}
							ps = append(ps, n+":"+par)
						}
						if len(x.ParentNameList) != len(x.NameList) {
							ps = append(ps, fmt.Sprintf("(%d names, %d parent entries)", len(x.NameList), len(x.ParentNameList)))
						}
						got = strings.Join(ps, ",")
					}
					if got != want {
						fail("names-paired-with-the-wrong-parents:"+l.kind, map[string]interface{}{"written": want, "understood": got})
						return
					}
					r.Outcome("names-and-parents-exact")
				}
				r.Outcome("accepted")
				return
			}
			got, ok := c16StateTypes(fr.Stats[0])
			if !ok || len(got) != len(want) {
				fail("understood-as-another-statement-or-arity:"+l.kind, map[string]interface{}{"state": fmt.Sprintf("%T", fr.Stats[0]), "types_understood": len(got), "types_written": len(want)})
				return
			}
			for k := range want {
				g := sexp(got[k])
				if g != want[k] {
					fail("type-structure-differs:"+l.kind, map[string]interface{}{"written": l.types[k], "reference_structure": want[k], "understood_structure": g})
					return
				}
				// print and read again
				printed := annotateast.TypeConvertStr(got[k])
				fr2, nerr2 := parseLine("---@type " + printed)
				re := "(reparse-error)"
				if nerr2 == 0 && len(fr2.Stats) == 1 {
					if ts, ok := c16StateTypes(fr2.Stats[0]); ok && len(ts) == 1 {
						re = sexp(ts[0])
					}
				}
				if re != g && strings.Contains(printed, "function(") {
					// would the text read back correctly if the keyword were printed as documented?
					fr3, nerr3 := parseLine("---@type " + strings.ReplaceAll(printed, "function(", "fun("))
					if nerr3 == 0 && len(fr3.Stats) == 1 {
						if ts, ok := c16StateTypes(fr3.Stats[0]); ok && len(ts) == 1 && sexp(ts[0]) == g {
							sig := "printed-type-reads-back-differently:only-because-fun-is-printed-as-function"
							r.Outcome(sig)
							r.Fail(name, i, sig, sig, map[string]interface{}{"line": l.text, "written": l.types[k], "printed": printed, "understood_structure": g, "reread_structure": re})
							return
						}
					}
				}
				if re != g && strings.Contains(l.types[k], "(fun(") && strings.Contains(l.types[k], "), ") {
					sig := "printed-type-reads-back-differently:fun-with-return-list-before-a-comma-loses-its-parentheses"
					r.Outcome(sig)
					r.Fail(name, i, sig, sig, map[string]interface{}{"line": l.text, "written": l.types[k], "printed": printed, "understood_structure": g, "reread_structure": re})
					return
				}
				if re != g {
					ctor := "other"
					switch {
					case strings.Contains(l.types[k], "fun("):
						ctor = "fun"
					case strings.Contains(l.types[k], ")["):
						ctor = "parenthesised-array"
					case strings.Contains(l.types[k], "table<"):
						ctor = "table"
					}
					fail("printed-type-reads-back-differently:"+ctor, map[string]interface{}{"written": l.types[k], "printed": printed, "understood_structure": g, "reread_structure": re})
					return
				}
			}
			r.Outcome("structure-intact")
		},
	}
}

// ---- corruption: single-token corruptions of a documented line between two good neighbours, through the server

var c16CorruptTokens = []string{"", "|", "[", "]", "<", ">", ",", "(", ")", ":", "?", "@", "fun", "table", "\"", "#"}

func c16CorruptSpace(tier string) *core.Space {
	base := []string{"---@type string", "---@type People[]", "---@type table<string, People>", "---@type fun(p: string): People", "---@field name string | People",
		"---@param p (string | People)[]", "---@return string, People", "---@alias Al string | People", "---@class C : P, Q", "---@generic T : P", "---@vararg string"}
	type cs struct {
		line, desc string
	}
	var cases []cs
	for _, b := range base {
		toks := strings.Fields(strings.NewReplacer("[", " [ ", "]", " ] ", "<", " < ", ">", " > ", ",", " , ", "(", " ( ", ")", " ) ", ":", " : ", "|", " | ").Replace(b))
		for k := 1; k < len(toks); k++ {
			for _, c := range c16CorruptTokens {
				if tier != "thorough" && (k+len(c))%2 == 1 {
					continue
				}
				nt := append(append(append([]string{}, toks[:k]...), c), toks[k+1:]...)
				cases = append(cases, cs{strings.Join(nt, " "), fmt.Sprintf("%s: token %d -> %q", b, k, c)})
			}
		}
	}
	return &core.Space{
		Name: "single-token-corruptions-between-good-neighbours", N: int64(len(cases)), Chunk: 100, RecycleEvery: 30,
		Describe: func(i int64) interface{} { return map[string]interface{}{"corrupted_line": cases[i].line, "how": cases[i].desc} },
		Run: func(i int64, r *core.Result) {
			c := cases[i]
			r.Evaluated++
			mk := func(mid string) string {
				return "---@class Good1\n---@field f1 string\n" + mid + "\n---@field f2 number\nlocal subject = {}\n---@type Good1\nlocal user = {}\nprint(subject, user.f1, undefinedname)\n"
			}
			run := func(text string) (*drv.Server, string) {
				root := drv.NewWorkspace(map[string]string{"m.lua": text})
				s, err := drv.Start(root, drv.Options{InitOptions: drv.AllChecks()})
				if err != nil {
					drv.RemoveWorkspace(root)
					return nil, root
				}
				s.Open("m.lua", text)
				return s, root
			}
			good, rootG := run(mk("---@field fm string"))
			bad, rootB := run(mk(c.line))
			defer drv.RemoveWorkspace(rootG)
			defer drv.RemoveWorkspace(rootB)
			if good == nil || bad == nil {
				r.Fail("corrupt", i, "server-start-failed", c.line, map[string]interface{}{"line": c.line})
				return
			}
			defer good.Close()
			defer bad.Close()
			r.Transitions += 4
			r.States++
			r.Nontrivial++
			fail := func(sig string, det map[string]interface{}) {
				r.Outcome(sig)
				det["corrupted_line"] = c.line
				det["how"] = c.desc
				r.Fail("corrupt", i, sig, c.line, det)
			}
			// Lua diagnostics unchanged; type-18 only on the corrupted line (line 2)
			luaOf := func(s *drv.Server) string {
				var ks []string
				for _, d := range s.Diags["m.lua"] {
					if d.Type != 18 {
						ks = append(ks, d.Key())
					}
				}
				return strings.Join(ks, ";")
			}
			if luaOf(good) != luaOf(bad) {
				fail("malformed-annotation-changes-lua-diagnostics", map[string]interface{}{"with_good_line": luaOf(good), "with_corrupted_line": luaOf(bad)})
			}
			for _, d := range bad.Diags["m.lua"] {
				if d.Type == 18 && d.Range.Start.Line != 2 {
					fail("annotation-warning-on-a-neighbouring-line", map[string]interface{}{"warning": d.Key()})
				}
			}
			// the neighbours are still understood: member completion of Good1 offers f1 and f2
			items, _ := bad.Completion("m.lua", 7, 20, ".")
			has := map[string]bool{}
			for _, it := range items {
				has[it.Label] = true
			}
			h1, _ := bad.Hover("m.lua", 7, 21)
			if !strings.Contains(h1, "f1") {
				fail("neighbour-annotation-lost:f1", map[string]interface{}{"hover_user.f1": h1})
			}
			r.Outcome("contained")
			if i%101 == 0 {
				r.Sample(map[string]interface{}{"corrupted_line": c.line, "diagnostics": bad.Diags["m.lua"]})
			}
		},
	}
}

func init() {
	core.Register(&core.Check{
		ID:        "C16",
		Technique: "bounded-exhaustive derivation enumeration of the documented annotation grammar (all type expressions up to a node bound in every statement kind) against an independent reference reader with canonical S-expressions, print/re-read round trip, and all single-token corruptions of documented lines embedded between good neighbours on the real server",
		Rule: "lines: every type expression with <=3 (quick) / <=4 (thorough) constructor nodes over {NAME, T[], (T|T)[], T|T, table<T,T>, table, fun(), fun(p:T), fun(p:T,q?:T), fun(p?:T,q:T), fun(p:T):T, fun():T,T} in ---@type/field (3 visibilities)/param (optional marker)/return/alias/vararg with and without @comment, two-type return/type lists, class/generic/overload/enum forms; " +
			"oracle: (i) accepted without error as exactly one statement, (ii) the understood tree equals the reference tree, (iii) TypeConvertStr of the understood type parses back to the same tree; corruptions: each token of 11 documented lines replaced by each of 16 tokens (or deleted), placed between good annotation lines above a declaration: the Lua diagnostics are unchanged, any type-18 warning lies on the corrupted line, the neighbouring class members are still understood. " +
			"states = lines judged; non-trivial = lines with a composite type",
		Assumptions: []string{"the reference grammar is the one written in internal/annref (from docs/manual/annotate.md): '[]' binds tighter than '|', parentheses group, fun return lists extend to the end of the type"},
		Flavour:     "prod+overlay", QuickBudgetS: 150, ThoroughBudgetS: 900,
		Spaces: func(tier string) []*core.Space {
			n := 3
			if tier == "thorough" {
				n = 4
			}
			return []*core.Space{c16PureSpace(n), c16CorruptSpace(tier)}
		},
	})
}

// c16NamesAndParents reads "---@class C : P, Q" / "---@generic T : P, K" the way the documentation describes them.
func c16NamesAndParents(line string) (string, bool) {
	body := line
	if k := strings.Index(body, " @"); k >= 0 {
		body = body[:k]
	}
	switch {
	case strings.HasPrefix(body, "---@class "):
		body = strings.TrimPrefix(body, "---@class ")
		name, parents := body, ""
		if k := strings.Index(body, ":"); k >= 0 {
			name, parents = body[:k], body[k+1:]
		}
		var ps []string
		for _, p := range strings.Split(parents, ",") {
			// a class naming itself as a parent: that parent is ignored, the others count
			if p = strings.TrimSpace(p); p != "" && p != strings.TrimSpace(name) {
				ps = append(ps, p)
			}
		}
		return strings.TrimSpace(name) + ":" + strings.Join(ps, "+"), true
	case strings.HasPrefix(body, "---@generic "):
		body = strings.TrimPrefix(body, "---@generic ")
		var out []string
		for _, item := range strings.Split(body, ",") {
			name, par := item, ""
			if k := strings.Index(item, ":"); k >= 0 {
				name, par = item[:k], item[k+1:]
			}
			out = append(out, strings.TrimSpace(name)+":"+strings.TrimSpace(par))
		}
		return strings.Join(out, ","), true
	}
	return "", false
}
