package checks

import (
	"encoding/json"
	"fmt"
	"os"
	"strings"

	"luahelper-lsp/langserver/vrt"

	"verif/internal/core"
	"verif/internal/drv"
)

// Opt-in analyses: the type checks (24 call parameter, 25 return, 26 assignment, 27 binary operator), class-field (22),
// const (23), uncalled local function (28) and enum (29) checks only run when luahelper.json names an entry file
// (ProjectFiles) and opens them (OpenErrorTypes). No client flag reaches that code, so the other layers never execute
// it. Here every program of a small typed alphabet is analysed under every single opened type and under all of them,
// and the server must stay alive through initialize / open / save / change and keep answering.

var c01TypedBody = []string{
	"local total = n", "total = n", "n = s", "local r = n + s", "local c = n .. s", "return n", "return s", "return n, s",
	"f(s, n)", "f(n)", "local t = {}\n  t.x = n", "s = 1", "if n == s then end", "local u = k.a + n", "k.zz = s", "local e = E.one + n", "local v = n + flag", "local v2 = flag - k", "LIMIT = n",
}

var c01TypedTail = []string{
	"f(1, \"a\")", "f(\"a\", 1)", "f()", "local q = f(1, \"x\")\nq = \"s\"", "---@type number\nlocal z = \"str\"", "---@type string\nlocal w = f(1, \"a\")",
	"local function unused(a) return a end", "---@type K\nlocal kk = k\nkk.b = 1", "LIMIT = 2",
}

const c01TypedHead = "---@class K\n---@field a number\nlocal k = {}\n---@type enum table\nlocal E = {one = 1, two = 1}\n---@type const number\nLIMIT = 1\n---@enum start\nea = 1\neb = 1\n---@enum end\n---@type boolean\nlocal flag = true\n" +
	"---@param n number\n---@param s string\n---@return number\nlocal function f(n, s)\n"

type c01TypedCase struct {
	body []int
	tail int
	open []int
}

func c01TypedCases(tier string) []c01TypedCase {
	all := []int{22, 23, 24, 25, 26, 27, 28, 29}
	opens := [][]int{all}
	if tier == "thorough" {
		for _, t := range all {
			opens = append(opens, []int{t})
		}
		opens = append(opens, []int{})
	}
	var out []c01TypedCase
	for _, op := range opens {
		for b1 := range c01TypedBody {
			for t := range c01TypedTail {
				out = append(out, c01TypedCase{[]int{b1}, t, op})
			}
			if tier == "thorough" || len(op) > 1 {
				for b2 := range c01TypedBody {
					out = append(out, c01TypedCase{[]int{b1, b2}, (b1 + b2) % len(c01TypedTail), op})
				}
			}
		}
	}
	return out
}

func (c c01TypedCase) files() map[string]string {
	var sb strings.Builder
	sb.WriteString(c01TypedHead)
	for _, b := range c.body {
		sb.WriteString("  " + c01TypedBody[b] + "\n")
	}
	sb.WriteString("end\n" + c01TypedTail[c.tail] + "\nprint(f, k, E)\n")
	cfg, _ := json.Marshal(map[string]interface{}{"ProjectFiles": []string{"m.lua"}, "OpenErrorTypes": c.open})
	return map[string]string{"luahelper.json": string(cfg), "m.lua": sb.String(), "o.lua": "---@param x number\nfunction og(x) return x end\nog(\"s\")\n"}
}

func c01TypedSpace(tier string) *core.Space {
	cases := c01TypedCases(tier)
	name := "opt-in-type-checks(luahelper.json entry file)"
	return &core.Space{
		Name: name, N: int64(len(cases)), Chunk: 20, RecycleEvery: 20, PerCaseTimeoutS: 30, ChunkTimeoutS: 90,
		Describe: func(i int64) interface{} { return map[string]interface{}{"files": cases[i].files()} },
		Run: func(i int64, r *core.Result) {
			c := cases[i]
			files := c.files()
			r.Evaluated++
			r.States++
			r.Nontrivial++
			vrt.TakeRecovered()
			root := drv.NewWorkspace(files)
			defer drv.RemoveWorkspace(root)
			fail := func(sig string, det map[string]interface{}) {
				det["files"] = files
				r.Outcome(sig)
				r.Fail("typed", i, sig, fmt.Sprint(c), det)
			}
			s, err := drv.Start(root, drv.Options{InitOptions: drv.AllChecks()})
			if err != nil {
				fail("no-answer-to-initialize", map[string]interface{}{"error": err.Error()})
				return
			}
			defer s.Close()
			text := files["m.lua"]
			s.Open("m.lua", text)
			nl := strings.Count(text, "\n")
			ask := func(stage string) bool {
				for _, k := range []string{"hover", "definition", "references", "completion", "documentSymbol", "signatureHelp"} {
					// inside the function body (line 18) and on the tail statement
					for _, ln := range []int{18, nl - 2} {
						if err := c01Ask(s, "m.lua", k, ln, 3); err != nil {
							fail("no-answer:"+k+":"+stage, map[string]interface{}{"error": err.Error()})
							return false
						}
						r.Transitions++
					}
				}
				return true
			}
			if !ask("after-open") {
				return
			}
			// save re-runs the project analysis with the type checks; an edit runs the real-time analysis
			os.WriteFile(root+"/m.lua", []byte(text+"f(2, \"b\")\n"), 0o644)
			s.ChangeFull("m.lua", text+"f(2, \"b\")\n")
			s.Save("m.lua", text+"f(2, \"b\")\n")
			r.Transitions += 2
			if !ask("after-save") {
				return
			}
			if bad := c01Swallowed(); len(bad) > 0 {
				fail("internal-fault-swallowed-by-recover", map[string]interface{}{"recovered": bad})
				return
			}
			// the opened checks must really have run: at least one diagnostic of an opened type somewhere in the space
			for _, ds := range s.Diags {
				for _, d := range ds {
					r.Count(fmt.Sprintf("diagnostic_type_%d_seen", d.Type), 1)
				}
			}
			r.Outcome("alive-and-answering")
			if i%211 == 0 {
				r.Sample(map[string]interface{}{"files": files, "layer": "opt-in type checks"})
			}
		},
	}
}
