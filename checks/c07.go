package checks

import (
	"fmt"
	"sort"
	"strings"

	"verif/internal/core"
	"verif/internal/drv"
	"verif/internal/luaref"
)

// C07: undefined-variable (2/3) and unused-local (4) warnings agree with the bindings.

var luaBuiltins = map[string]bool{"print": true, "pairs": true, "ipairs": true, "require": true, "type": true, "_G": true, "self": true}

type c07Cfg struct {
	name  string
	files map[string]string // extra files (luahelper.json)
	opts  func() map[string]interface{}
	// names ignored as undefined / as unused
	ignoreGlobals map[string]bool
	ignoreUnused  map[string]bool
}

func c07Configs() []c07Cfg {
	return []c07Cfg{
		{name: "client-flags", opts: drv.AllChecks},
		{name: "luahelper.json", files: map[string]string{"luahelper.json": `{"ShowWarnFlag":1,"IgnoreModules":["g"],"IgnoreLocalNoUseVars":["b"],"IgnoreErrorTypes":[]}`},
			opts: drv.AllChecks, ignoreGlobals: map[string]bool{"g": true}, ignoreUnused: map[string]bool{"b": true}},
	}
}

// expectations derived from the reference binding
type c07Expect struct {
	mustUndef    map[string]string // range -> name: a 2 or 3 must be present
	neverUndef   map[string]string // range -> name: no 2/3 may be present
	mustUnused   map[string]string // decl range -> name: a 4 must be present
	neverUnuse   map[string]string // decl range -> name: no 4 may be present
	exemptUnused map[string]string // unread loop variables: documented exemption, no 4 may be present
	neverRead    map[string]bool   // ranges of writes to never-read locals (17 allowed only here)
}

func c07Expectations(c *scopeCase, cfg c07Cfg) *c07Expect {
	e := &c07Expect{map[string]string{}, map[string]string{}, map[string]string{}, map[string]string{}, map[string]string{}, map[string]bool{}}
	b := c.Bind
	// global definitions: where, and whether at top level
	type gdef struct {
		start int
		top   bool
	}
	defsHere := map[string][]gdef{}
	for _, o := range b.Occs {
		if o.Decl < 0 && o.GlobalDef {
			defsHere[o.Name] = append(defsHere[o.Name], gdef{o.Start, o.TopLevel})
		}
	}
	definedElsewhere := func(name string) bool {
		for f, ob := range c.Other {
			_ = f
			for _, o := range ob.Occs {
				if o.Decl < 0 && o.Name == name && o.GlobalDef {
					return true
				}
			}
		}
		return false
	}
	for _, o := range b.Occs {
		k := rng(c.Text, o.Span).String()
		if o.Kind == "decl" {
			continue
		}
		if o.Decl >= 0 {
			e.neverUndef[k] = o.Name
			continue
		}
		if o.Kind == "write" {
			e.neverUndef[k] = o.Name
			continue
		}
		// global read
		if luaBuiltins[o.Name] || cfg.ignoreGlobals[o.Name] {
			e.neverUndef[k] = o.Name
			continue
		}
		ds := defsHere[o.Name]
		oline := rng(c.Text, o.Span).Start.Line
		if definedElsewhere(o.Name) {
			// another file defines it: never undefined -- unless this file also (re)defines it at or after
			// the read, where the tool's load-order warning (type 3) is not excluded by the statement
			later := false
			for _, d := range ds {
				if d.start > o.Start || rng(c.Text, luaref.Span{Start: d.start, End: d.start}).Start.Line == oline {
					later = true
				}
			}
			if !later {
				e.neverUndef[k] = o.Name
			}
			continue
		}
		if len(ds) == 0 {
			if o.Ctx == "" {
				e.mustUndef[k] = o.Name
			}
			continue
		}
		// defined in this file: before at top level -> bound; otherwise the statement fixes only
		// "later at top level -> reported (3)" when the read itself is at top level
		before := false
		laterTop := false
		other := false
		for _, d := range ds {
			switch {
			case d.start < o.Start && d.top && rng(c.Text, luaref.Span{Start: d.start, End: d.start}).Start.Line != oline:
				before = true
			case d.start > o.Start && d.top:
				laterTop = true
			default:
				other = true
			}
		}
		switch {
		case before:
			e.neverUndef[k] = o.Name
		case laterTop && !other && o.TopLevel && o.Ctx == "":
			e.mustUndef[k] = o.Name
		default:
			// defined only inside functions, or read inside a function before a later definition: don't care
		}
	}
	// unused locals
	reads := map[int]int{}
	writes := map[int][]luaref.Occ{}
	for _, o := range b.Occs {
		if o.Decl >= 0 && o.Kind == "read" {
			reads[o.Decl]++
		}
		if o.Decl >= 0 && o.Kind == "write" {
			writes[o.Decl] = append(writes[o.Decl], o)
		}
	}
	for _, d := range b.Decls {
		if d.Kind == "self" {
			continue
		}
		k := rng(c.Text, d.Span).String()
		if reads[d.ID] > 0 {
			e.neverUnuse[k] = d.Name
			continue
		}
		for _, w := range writes[d.ID] {
			e.neverRead[rng(c.Text, w.Span).String()] = true
		}
		exempt := d.Kind != "local" || d.Name == "_" || d.Attrib == "close" || cfg.ignoreUnused[d.Name]
		if _, isFn := d.Init.(*luaref.FuncExpr); isFn {
			exempt = true
		}
		if n, ok := d.Init.(*luaref.NameExpr); ok && luaBuiltins[n.Name] {
			exempt = true
		}
		if ls, ok := d.Stat.(*luaref.LocalStat); ok && d.Init == nil && len(ls.Exprs) > 0 {
			// extra name of a multi-value initialiser (local a, b = f()): exemption status not fixed
			exempt = true
		}
		if !exempt {
			e.mustUnused[k] = d.Name
		} else if d.Kind == "loopvar" {
			e.exemptUnused[k] = d.Name
		}
	}
	return e
}

func c07Space(d scopeSpaceDef, cfg c07Cfg) *core.Space {
	name := d.name + "/" + cfg.name
	return &core.Space{
		Name: name, N: d.count(), Chunk: 400, RecycleEvery: 30,
		Describe: func(i int64) interface{} {
			c := d.at(i)
			m := caseDesc(c)
			m["config"] = cfg.name
			return m
		},
		Run: func(i int64, r *core.Result) {
			c := d.at(i)
			for k, v := range cfg.files {
				c.Files[k] = v
			}
			r.Evaluated++
			if c.Bind == nil {
				r.Fail(name, i, "generator-program-not-valid", c.Text, caseDesc(c))
				return
			}
			root := drv.NewWorkspace(c.Files)
			defer drv.RemoveWorkspace(root)
			s, err := drv.Start(root, drv.Options{InitOptions: cfg.opts()})
			if err != nil {
				r.Fail(name, i, "server-start-failed", c.Text, map[string]interface{}{"error": err.Error(), "case": caseDesc(c)})
				return
			}
			defer s.Close()
			r.Transitions += 2
			ex := c07Expectations(c, cfg)
			if len(ex.mustUndef)+len(ex.mustUnused) > 0 {
				r.Nontrivial++
			}
			if i%997 == 0 {
				r.Sample(map[string]interface{}{"m.lua": c.Text, "config": cfg.name, "must_be_undefined": len(ex.mustUndef), "must_be_unused": len(ex.mustUnused), "diagnostics": s.Diags["m.lua"]})
			}
			undef := map[string]int{}
			unused := map[string]bool{}
			var t17 []drv.Diag
			for _, dg := range s.Diags["m.lua"] {
				switch dg.Type {
				case 2, 3:
					undef[dg.Range.String()] = dg.Type
				case 4:
					unused[dg.Range.String()] = true
				case 17:
					t17 = append(t17, dg)
				}
			}
			fail := func(sig, what string, rs string) {
				r.Outcome(sig)
				var rr drv.Range
				fmt.Sscanf(rs, "%d:%d-%d:%d", &rr.Start.Line, &rr.Start.Character, &rr.End.Line, &rr.End.Character)
				coreS := fmt.Sprintf("%s | %s | %s", sig, lineAt(c.Text, rr), cfg.name)
				r.Fail(name, i, sig, coreS, map[string]interface{}{"failure_core": coreS, "case": caseDesc(c), "config": cfg.name, "what": what, "range": rs, "diagnostics": s.Diags["m.lua"]})
			}
			ctxOf := func(rs string) string {
				for _, o := range c.Bind.Occs {
					if rng(c.Text, o.Span).String() == rs {
						return lastSeg(c.occContext(o))
					}
				}
				return "?"
			}
			var keys []string
			for k := range ex.mustUndef {
				keys = append(keys, k)
			}
			sort.Strings(keys)
			for _, k := range keys {
				r.States++
				if undef[k] == 0 {
					fail("unbound-read-not-reported:in-"+ctxOf(k), "global "+ex.mustUndef[k]+" is defined nowhere but carries no type 2/3", k)
				} else {
					r.Outcome("undefined-reported")
				}
			}
			keys = keys[:0]
			for k := range ex.neverUndef {
				keys = append(keys, k)
			}
			sort.Strings(keys)
			for _, k := range keys {
				r.States++
				if t := undef[k]; t != 0 {
					fail(fmt.Sprintf("bound-name-reported-undefined(type%d):in-%s", t, ctxOf(k)), ex.neverUndef[k]+" is bound but reported undefined", k)
				}
			}
			keys = keys[:0]
			for k := range ex.mustUnused {
				keys = append(keys, k)
			}
			sort.Strings(keys)
			for _, k := range keys {
				r.States++
				if !unused[k] {
					fail("unread-local-not-reported:in-"+ctxOf(k), "local "+ex.mustUnused[k]+" is never read but carries no type 4", k)
				} else {
					r.Outcome("unused-reported")
				}
			}
			keys = keys[:0]
			for k := range ex.neverUnuse {
				keys = append(keys, k)
			}
			sort.Strings(keys)
			for _, k := range keys {
				r.States++
				if unused[k] {
					fail("read-local-reported-unused:in-"+ctxOf(k), "local "+ex.neverUnuse[k]+" is read but reported unused", k)
				}
			}
			keys = keys[:0]
			for k := range ex.exemptUnused {
				keys = append(keys, k)
			}
			sort.Strings(keys)
			for _, k := range keys {
				r.States++
				if unused[k] {
					fail("exempt-loop-variable-reported-unused:in-"+ctxOf(k), "loop variable "+ex.exemptUnused[k]+" is never read; loop variables are exempt but it carries a type 4", k)
				} else {
					r.Outcome("exempt-loop-variable-not-reported")
				}
			}
			for _, dg := range t17 {
				if !ex.neverRead[dg.Range.String()] {
					// a 17 on something that is not a write to a never-read local
					ok := false
					for k := range ex.neverRead {
						if strings.HasPrefix(k, fmt.Sprintf("%d:", dg.Range.Start.Line)) {
							ok = true
						}
					}
					if !ok {
						fail("type17-on-read-local:in-"+ctxOf(dg.Range.String()), "type 17 outside writes to never-read locals", dg.Range.String())
					}
				}
			}
		},
	}
}

func init() {
	core.Register(&core.Check{
		ID:        "C07",
		Technique: "bounded-exhaustive program enumeration on the real server (all programs of the statement alphabets up to the node bound, two configuration channels) against diagnostics predicted from an independent reference binder",
		Rule: "programs as in C05; all checks enabled by client flags, and by luahelper.json with ignore lists (IgnoreModules g, IgnoreLocalNoUseVars b); for every name occurrence and every local declaration the published type 2/3/4/17 diagnostics are compared with the " +
			"three-valued expectation derived from the reference binding (must / must-not / don't-care). states = judged obligations; non-trivial = programs with at least one must-report obligation",
		Assumptions: []string{
			"don't-care: reads in the idiom contexts (x = x or v, not x, x == nil), globals defined only inside functions or after a read inside a function, extra names of multi-value initialisers, local functions and function-valued locals, parameters, loop variables",
			"2 versus 3 is not judged, only 'reported as undefined'",
		},
		Flavour:      "prod+overlay",
		QuickBudgetS: 420, ThoroughBudgetS: 3600,
		Spaces: func(tier string) []*core.Space {
			var sp []*core.Space
			cfgs := c07Configs()
			// C07 only: names an exemption for "_" (and "_G") could swallow by mistake
			names := scopeSpaceDef{name: "unused-locals-named-like-the-exempt-ones", others: otherVariants[:1], fixed: c07NameShapes()}
			sp = append(sp, c07Space(names, cfgs[0]), c07Space(names, cfgs[1]))
			for _, d := range scopeSpaces(tier) {
				sp = append(sp, c07Space(d, cfgs[0]))
			}
			// the second configuration channel on the smaller spaces
			for _, d := range scopeSpaces(tier) {
				if d.count() < 20000 || (tier == "thorough" && d.count() < 400000) {
					sp = append(sp, c07Space(d, cfgs[1]))
				}
			}
			return sp
		},
	})
}

// c07NameShapes: unread locals whose names begin or end with an underscore, or begin with _G: only "_" itself is exempt
// in the reference (the server also exempts "_G", which no shape declares).
func c07NameShapes() [][]string {
	return [][]string{
		{"local _a = 1", "local b = 3", "do local _b = b end"},
		{"local _tmp, __ = 1, 2", "print(__)"},
		{"local _1 = 1", "local G = 2", "local _g = 3", "local _Gx = 4"},
		{"local a_ = 1", "local _ = 2", "local _x_ = a_"},
		{"local _a = 1", "_a = 2", "local function f() local _inner = 1 _inner = 2 end", "f()"},
	}
}
