package checks

import (
	"fmt"

	"verif/internal/core"
	"verif/internal/drv"
)

// Identifiers that begin with a keyword (done, format, ifx, ...): the cursor is placed inside a read of the identifier
// at every offset, so the typed prefix is at some point exactly a keyword (or a snippet label) while the program
// stays valid. The declared name must be offered at every offset.

var c14PrefixNames = []string{"done", "format", "ifx", "whiles", "repeater", "functional", "elsewhere", "elseifx", "inner", "notice",
	"endpoint", "localize", "returned", "untilx", "thenx", "breaker", "gotox", "nilly", "truest", "falsey", "andy", "orbit"}

var c14PrefixForms = []struct{ name, pre, use string }{
	{"local", "local %s = 1\n", "print(%s)\n"},
	{"global", "%s = 1\n", "print(%s)\n"},
	{"parameter", "local function f(%s)\n", "  return %s\nend\n"},
	{"global-in-another-file", "", "print(%s)\n"},
}

func c14PrefixSpace() *core.Space {
	n := int64(len(c14PrefixNames) * len(c14PrefixForms))
	name := "identifiers-that-begin-with-a-keyword"
	build := func(i int64) (string, string, string, map[string]string) {
		nm := c14PrefixNames[i/int64(len(c14PrefixForms))]
		f := c14PrefixForms[i%int64(len(c14PrefixForms))]
		pre := f.pre
		if pre != "" {
			pre = fmt.Sprintf(pre, nm)
		}
		files := map[string]string{"m.lua": pre + fmt.Sprintf(f.use, nm)}
		if f.name == "global-in-another-file" {
			files["o.lua"] = nm + " = 1\n"
		}
		return nm, f.name, pre, files
	}
	return &core.Space{
		Name: name, N: n, Chunk: 20, RecycleEvery: 20,
		Describe: func(i int64) interface{} {
			_, _, _, files := build(i)
			return map[string]interface{}{"files": files}
		},
		Run: func(i int64, r *core.Result) {
			nm, form, pre, files := build(i)
			r.Evaluated++
			r.Nontrivial++
			root := drv.NewWorkspace(files)
			defer drv.RemoveWorkspace(root)
			s, err := drv.Start(root, drv.Options{})
			if err != nil {
				r.Fail(name, i, "server-start-failed", nm, map[string]interface{}{"error": err.Error()})
				return
			}
			defer s.Close()
			text := files["m.lua"]
			s.Open("m.lua", text)
			// position of the read: last occurrence of the name
			useLine, useCol := 0, 0
			off := len(text) - 1
			for ; off >= 0; off-- {
				if off+len(nm) <= len(text) && text[off:off+len(nm)] == nm {
					break
				}
			}
			for k := 0; k < off; k++ {
				if text[k] == '\n' {
					useLine++
					useCol = 0
				} else {
					useCol++
				}
			}
			_ = pre
			for k := 1; k <= len(nm); k++ {
				items, err := s.Completion("m.lua", useLine, useCol+k, "")
				r.Transitions++
				r.States++
				found := false
				if err == nil {
					for _, it := range items {
						if it.Label == nm {
							found = true
						}
					}
				}
				if !found {
					sig := "declared-name-not-offered-behind-a-prefix-that-is-a-keyword-or-part-of-one"
					coreS := fmt.Sprintf("%s | %s %s | prefix %q", sig, form, nm, nm[:k])
					r.Outcome(sig)
					det := map[string]interface{}{"failure_core": coreS, "files": files, "cursor": fmt.Sprintf("%d:%d", useLine, useCol+k), "typed_prefix": nm[:k], "offered": len(items)}
					if err != nil {
						det["error"] = err.Error()
					}
					r.Fail(name, i, sig, coreS, det)
				} else {
					r.Outcome("offered")
				}
			}
		},
	}
}
