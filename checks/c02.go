package checks

import (
	"fmt"
	"sort"
	"strings"

	"luahelper-lsp/langserver"
	"luahelper-lsp/langserver/lspcommon"
	lsp "luahelper-lsp/langserver/protocol"

	"verif/internal/core"
	"verif/internal/drv"
	"verif/internal/enum"
	"verif/internal/luaref"
	"verif/internal/textref"
)

// C02: the server's copy of an open document always equals the client's text.

var c02Alpha = []string{"a", "é", "中", "😀", "\n", "\r\n", "\r"}
var c02Inserts = []string{"", "x", "\n", "\r", "😀", "é\n"}

type c02Edit struct {
	S, E    textref.Pos
	Ins     string
	Clamped bool // one end lies one unit past its line end (LSP: clamp)
}

// c02Edits lists every range over the valid positions of text x every insert,
// then the clamped variants (start or end one unit beyond a line end).
func c02Edits(text string, withClamp bool) []c02Edit {
	ps := textref.ValidPositions(text)
	var out []c02Edit
	for i := range ps {
		for j := i; j < len(ps); j++ {
			for _, ins := range c02Inserts {
				out = append(out, c02Edit{ps[i], ps[j], ins, false})
			}
		}
	}
	if withClamp {
		ls := textref.Lines(text)
		for li, l := range ls {
			n := textref.Units(text[l.Start:l.End])
			past := textref.Pos{Line: li, Char: n + 1}
			eol := textref.Pos{Line: li, Char: n}
			bol := textref.Pos{Line: li, Char: 0}
			for _, ins := range []string{"", "x"} {
				out = append(out, c02Edit{past, past, ins, true})
				out = append(out, c02Edit{eol, past, ins, true})
				out = append(out, c02Edit{bol, past, ins, true})
			}
		}
	}
	return out
}

func c02Features(text string, e c02Edit, got string, oldText string) string {
	var fs []string
	eo, _, _ := textref.Offset(text, e.E)
	before := text[:eo]
	for _, r := range before {
		if r >= 0x10000 {
			fs = append(fs, "astral-before-position")
			break
		}
	}
	for i := 0; i < len(before); i++ {
		if before[i] == '\r' && (i+1 >= len(text) || text[i+1] != '\n') {
			fs = append(fs, "lone-CR-line-end")
			break
		}
	}
	if e.Clamped {
		fs = append(fs, "character-past-line-end")
	}
	if len(fs) == 0 {
		fs = append(fs, "plain")
	}
	kind := "wrong-splice"
	if got == oldText {
		kind = "edit-dropped-stale-text"
	}
	return "text-mismatch:" + kind + ":" + strings.Join(fs, "+")
}

func lspRange(e c02Edit) *lsp.Range {
	return &lsp.Range{Start: lsp.Position{Line: uint32(e.S.Line), Character: uint32(e.S.Char)},
		End: lsp.Position{Line: uint32(e.E.Line), Character: uint32(e.E.Char)}}
}

// pureApply runs the real FileMapCache.ApplyContentChanges.
func pureApply(text string, edits ...c02Edit) (string, error) {
	fc := lspcommon.CreateFileMapCache()
	var ch []lsp.TextDocumentContentChangeEvent
	for _, e := range edits {
		ch = append(ch, lsp.TextDocumentContentChangeEvent{Range: lspRange(e), Text: e.Ins})
	}
	b, err := fc.ApplyContentChanges("a.lua", []byte(text), ch)
	if err != nil {
		return text, err
	}
	return string(b), nil
}

type c02DocSet struct {
	docs []string
	cum  []int64 // prefix sums of edit counts
}

func c02Docs(L int) []string {
	n := enum.CountStrings(len(c02Alpha), L)
	docs := make([]string, 0, n)
	for i := int64(0); i < n; i++ {
		docs = append(docs, enum.Join(c02Alpha, enum.StringAt(len(c02Alpha), i), ""))
	}
	// CR followed by LF symbols fuse into CRLF: distinct symbol strings may give equal texts
	seen := map[string]bool{}
	var out []string
	for _, d := range docs {
		if !seen[d] {
			seen[d] = true
			out = append(out, d)
		}
	}
	return out
}

func newDocSet(docs []string, clamp bool) *c02DocSet {
	ds := &c02DocSet{docs: docs, cum: make([]int64, len(docs)+1)}
	for i, d := range docs {
		ds.cum[i+1] = ds.cum[i] + int64(len(c02Edits(d, clamp)))
	}
	return ds
}

func (ds *c02DocSet) at(idx int64) (string, c02Edit) {
	k := enum.Locate(ds.cum, idx)
	return ds.docs[k], c02Edits(ds.docs[k], true)[idx-ds.cum[k]]
}

// successors of a doc set under the reference buffer (distinct texts, sorted).
func c02Successors(docs []string) []string {
	seen := map[string]bool{}
	for _, d := range docs {
		for _, e := range c02Edits(d, false) {
			t, ok := textref.Apply(d, e.S, e.E, e.Ins)
			if ok {
				seen[t] = true
			}
		}
	}
	for _, d := range docs {
		delete(seen, d)
	}
	out := make([]string, 0, len(seen))
	for t := range seen {
		out = append(out, t)
	}
	sort.Strings(out)
	return out
}

func c02PureSpace(name string, ds *c02DocSet) *core.Space {
	return &core.Space{
		Name: name, N: ds.cum[len(ds.docs)], Chunk: 20000,
		Describe: func(i int64) interface{} {
			d, e := ds.at(i)
			return map[string]interface{}{"text": d, "start": e.S, "end": e.E, "insert": e.Ins}
		},
		Run: func(i int64, r *core.Result) {
			d, e := ds.at(i)
			want, ok := textref.Apply(d, e.S, e.E, e.Ins)
			r.Evaluated++
			r.Transitions++
			if !ok {
				return
			}
			if e.S != e.E || e.Ins != "" {
				r.Nontrivial++
			}
			got, err := pureApply(d, e)
			if i%50021 == 0 {
				r.Sample(map[string]interface{}{"text": d, "start": e.S, "end": e.E, "insert": e.Ins, "expected": want, "server": got})
			}
			if got != want {
				r.Outcome("mismatch")
				det := map[string]interface{}{"text": d, "range": fmt.Sprint(e.S, e.E), "insert": e.Ins, "expected": want, "server": got}
				if err != nil {
					det["error"] = err.Error()
				}
				r.Fail(name, i, c02Features(d, e, got, d), fmt.Sprintf("%q|%v|%v|%q", d, e.S, e.E, e.Ins), det)
			} else {
				r.Outcome("equal")
			}
		},
	}
}

// ---- handler level: histories over one document through the real handlers

type c02State struct {
	open bool
	text string
	path []c02Event // shortest witness history from the initial (closed) state
}

type c02Event struct {
	Kind string // open | inc | full | save | close | batch
	Text string
	Ed   []c02Edit
}

func (e c02Event) String() string {
	switch e.Kind {
	case "inc", "batch":
		var p []string
		for _, x := range e.Ed {
			p = append(p, fmt.Sprintf("%d:%d-%d:%d%q", x.S.Line, x.S.Char, x.E.Line, x.E.Char, x.Ins))
		}
		return e.Kind + "(" + strings.Join(p, ",") + ")"
	case "close":
		return "close"
	}
	return fmt.Sprintf("%s(%q)", e.Kind, e.Text)
}

func c02EventsOf(s *c02State, t0 []string) []c02Event {
	var evs []c02Event
	if !s.open {
		for _, t := range t0 {
			evs = append(evs, c02Event{Kind: "open", Text: t})
		}
		return evs
	}
	for _, e := range c02Edits(s.text, true) {
		evs = append(evs, c02Event{Kind: "inc", Ed: []c02Edit{e}})
	}
	for _, t := range t0 {
		evs = append(evs, c02Event{Kind: "full", Text: t})
	}
	evs = append(evs, c02Event{Kind: "save", Text: s.text})
	evs = append(evs, c02Event{Kind: "close"})
	return evs
}

// refStep is the reference model's transition.
func refStep(s c02State, e c02Event) (c02State, bool) {
	n := c02State{open: s.open, text: s.text}
	switch e.Kind {
	case "open":
		n.open, n.text = true, e.Text
	case "full", "save":
		n.text = e.Text
	case "close":
		n.open, n.text = false, ""
	case "inc", "batch":
		for _, x := range e.Ed {
			t, ok := textref.Apply(n.text, x.S, x.E, x.Ins)
			if !ok {
				return n, false
			}
			n.text = t
		}
	}
	return n, true
}

type c02Hist struct {
	t0     []string
	levels [][]*c02State // levels[k] = states first reached after k events
	cum    [][]int64
}

func buildC02Hist(t0 []string, depth int) *c02Hist {
	h := &c02Hist{t0: t0}
	seen := map[string]bool{"closed": true}
	cur := []*c02State{{open: false}}
	for k := 0; k < depth; k++ {
		h.levels = append(h.levels, cur)
		cum := make([]int64, len(cur)+1)
		var next []*c02State
		for i, s := range cur {
			evs := c02EventsOf(s, t0)
			cum[i+1] = cum[i] + int64(len(evs))
			if k == depth-1 {
				continue
			}
			for _, e := range evs {
				n, ok := refStep(*s, e)
				if !ok {
					continue
				}
				key := "closed"
				if n.open {
					key = "o:" + n.text
				}
				if !seen[key] {
					seen[key] = true
					ns := &c02State{open: n.open, text: n.text}
					ns.path = append(append([]c02Event{}, s.path...), e)
					next = append(next, ns)
				}
			}
		}
		h.cum = append(h.cum, cum)
		cur = next
	}
	return h
}

var c02Srv *drv.Server

// c02SharedServer: one server per worker process, shared by every space that needs one. The verif accessor reads the
// cache of the most recently created server and the server keeps state in package-level variables, so a process must
// never hold two live servers.
func c02SharedServer() {
	if c02Srv == nil {
		root := drv.NewWorkspace(map[string]string{"a.lua": c02DiskText})
		s, err := drv.Start(root, drv.Options{})
		if err != nil {
			panic(err)
		}
		c02Srv = s
	}
}

// the saved file declares a global that no buffer of the alphabet declares: if the outline of the open document
// lists it, the server analyses the disk file instead of the client's text
const c02DiskText = "gondisk = 1\n"

func c02Send(s *drv.Server, e c02Event) error {
	switch e.Kind {
	case "open":
		return s.Open("a.lua", e.Text)
	case "full":
		return s.ChangeFull("a.lua", e.Text)
	case "save":
		return s.Save("a.lua", e.Text)
	case "close":
		return s.CloseDoc("a.lua")
	case "config":
		all := make([]bool, 26)
		for i := range all {
			all[i] = true
		}
		if err := s.Notify("workspace/didChangeConfiguration", c17Settings(all)); err != nil {
			return err
		}
		return s.Notify("workspace/didChangeConfiguration", c17Settings(all))
	case "inc", "batch":
		var eds []drv.Edit
		for _, x := range e.Ed {
			eds = append(eds, drv.Edit{Range: drv.Range{Start: drv.Pos{Line: x.S.Line, Character: x.S.Char}, End: drv.Pos{Line: x.E.Line, Character: x.E.Char}}, Text: x.Ins})
		}
		return s.ChangeInc("a.lua", eds)
	}
	return nil
}

func c02ValidLua(t string) bool {
	pr := luaref.Parse(t)
	return pr.Err == nil && len(pr.DontCare) == 0
}

func c02Cached(s *drv.Server) (string, bool) {
	b, ok := langserver.VerifServer().VerifCachedText(s.Root + "/a.lua")
	return string(b), ok
}

func c02HandlerSpace(name string, h *c02Hist, level int) *core.Space {
	states := h.levels[level]
	cum := h.cum[level]
	at := func(i int64) (*c02State, c02Event) {
		k := enum.Locate(cum, i)
		return states[k], c02EventsOf(states[k], h.t0)[i-cum[k]]
	}
	desc := func(i int64) interface{} {
		s, e := at(i)
		var p []string
		for _, x := range s.path {
			p = append(p, x.String())
		}
		return map[string]interface{}{"history": p, "state_open": s.open, "state_text": s.text, "event": e.String()}
	}
	return &core.Space{
		Name: name, N: cum[len(states)], Chunk: 400, Describe: desc, RecycleEvery: 50,
		Setup: func() {
			c02SharedServer()
		},
		Run: func(i int64, r *core.Result) {
			s, e := at(i)
			srv := c02Srv
			r.Evaluated++
			// reset: the document is closed
			if _, open := c02Cached(srv); open {
				srv.CloseDoc("a.lua")
			}
			cur := c02State{}
			fail := func(sig string, detail map[string]interface{}) {
				detail["case"] = desc(i)
				r.Fail(name, i, sig, core.HashCase("", fmt.Sprint(desc(i))), detail)
			}
			hist := append(append([]c02Event{}, s.path...), e)
			for step, ev := range hist {
				next, ok := refStep(cur, ev)
				if err := c02Send(srv, ev); err != nil {
					fail("transport-error", map[string]interface{}{"error": err.Error()})
					return
				}
				r.Transitions++
				got, open := c02Cached(srv)
				if !ok {
					// edit outside the buffer: nothing is required of the text
					return
				}
				if open != next.open {
					fail(fmt.Sprintf("open-flag-mismatch:%s", ev.Kind), map[string]interface{}{"step": step, "expected_open": next.open, "server_open": open})
					return
				}
				if open && got != next.text {
					sig := "text-mismatch:" + ev.Kind
					if ev.Kind == "inc" {
						sig = c02Features(cur.text, ev.Ed[0], got, cur.text)
					}
					if step < len(hist)-1 {
						// the shorter history is itself a case of an earlier level and is reported there
						r.Count("prefix_already_failing", 1)
						return
					}
					fail(sig, map[string]interface{}{"step": step, "expected": next.text, "server": got})
					return
				}
				cur = next
				// what is analysed: after an edit (or an open) whose buffer is valid Lua the outline must come from the
				// buffer, never from the saved file. A buffer that does not parse legitimately keeps the last good analysis;
				// didSave re-reads the file, which a real client has just written, so neither is judged.
				if open && step == len(hist)-1 && ev.Kind != "save" && c02ValidLua(next.text) {
					r.Count("outline_judged_"+ev.Kind, 1)
					if syms, err := srv.DocSymbols("a.lua"); err == nil {
						r.Transitions++
						for _, sy := range syms {
							if strings.Contains(sy.Name, "gondisk") && !strings.Contains(next.text, "gondisk") {
								fail("server-analyses-the-saved-file-instead-of-the-buffer:after-"+ev.Kind, map[string]interface{}{"step": step, "buffer": next.text, "outline_entry": sy.Name})
								return
							}
						}
					}
				}
			}
			r.States++
			if e.Kind == "inc" || e.Kind == "full" {
				r.Nontrivial++
			}
			if i%4001 == 0 {
				r.Sample(desc(i))
			}
		},
	}
}

func c02BatchSpace(docs []string) *core.Space {
	// two edits in one didChange: pairs (e1, e2 over the result of e1)
	type pair struct {
		d      string
		e1, e2 c02Edit
	}
	var cum []int64
	cum = append(cum, 0)
	type de struct {
		d  string
		e1 c02Edit
		t1 string
	}
	var firsts []de
	for _, d := range docs {
		for _, e1 := range c02Edits(d, false) {
			t1, ok := textref.Apply(d, e1.S, e1.E, e1.Ins)
			if !ok {
				continue
			}
			firsts = append(firsts, de{d, e1, t1})
			cum = append(cum, cum[len(cum)-1]+int64(len(c02Edits(t1, false))))
		}
	}
	at := func(i int64) pair {
		k := enum.Locate(cum, i)
		f := firsts[k]
		return pair{f.d, f.e1, c02Edits(f.t1, false)[i-cum[k]]}
	}
	return &core.Space{
		Name: "pure-batch2", N: cum[len(cum)-1], Chunk: 20000,
		Describe: func(i int64) interface{} {
			p := at(i)
			return map[string]interface{}{"text": p.d, "edit1": fmt.Sprint(p.e1), "edit2": fmt.Sprint(p.e2)}
		},
		Run: func(i int64, r *core.Result) {
			p := at(i)
			r.Evaluated++
			r.Transitions++
			t1, _ := textref.Apply(p.d, p.e1.S, p.e1.E, p.e1.Ins)
			want, ok := textref.Apply(t1, p.e2.S, p.e2.E, p.e2.Ins)
			if !ok {
				return
			}
			r.Nontrivial++
			got, _ := pureApply(p.d, p.e1, p.e2)
			if got != want {
				// classify by the first edit that is individually wrong
				g1, _ := pureApply(p.d, p.e1)
				sig := ""
				if g1 != t1 {
					sig = "batch:first:" + c02Features(p.d, p.e1, g1, p.d)
				} else {
					g2, _ := pureApply(t1, p.e2)
					sig = "batch:second:" + c02Features(t1, p.e2, g2, t1)
				}
				r.Fail("pure-batch2", i, sig, fmt.Sprintf("%q|%v|%v", p.d, p.e1, p.e2), map[string]interface{}{"text": p.d, "edit1": fmt.Sprint(p.e1), "edit2": fmt.Sprint(p.e2), "expected": want, "server": got})
			}
		},
	}
}

func init() {
	core.Register(&core.Check{
		ID:        "C02",
		Technique: "bounded-exhaustive history exploration (BFS over edit histories with state merging on the buffer text) of the real didOpen/didChange/didSave/didClose handlers and of FileMapCache.ApplyContentChanges against a reference UTF-16 text buffer",
		Rule: "documents: all strings over {a, é, 中, 😀, LF, CRLF, CR} up to the length bound; edits: every (start<=end) pair of valid UTF-16 positions x 6 insert texts, plus ends one unit past a line end (LSP clamp); " +
			"histories open/inc/full/save/close explored breadth-first, states merged on (open, text); a change outside the document (5 forms: a line beyond the last one, alone or second in a batch) followed by didSave must leave exactly the saved text, and every edit after it is judged again. non-trivial = the event changes the text (non-empty range or insert) and the reference can apply it",
		Assumptions: []string{
			"reference buffer (internal/textref) implements LSP 3.17 position semantics: EOL = LF|CRLF|CR, character = UTF-16 code unit, character beyond line end clamps to the line length",
			"positions inside a surrogate pair and lines beyond the last line are not judged (LSP leaves them to the client)",
			"state merging on buffer text is sound because SetFileContent stores the text verbatim; merged states are re-entered through their shortest witness history on the real server",
		},
		Flavour: "prod+accessor-overlay",
		Spaces: func(tier string) []*core.Space {
			L1, L2, hd, ht := 3, 2, 2, 1
			if tier == "thorough" {
				L1, L2, hd, ht = 4, 3, 3, 2
			}
			docs1 := c02Docs(L1)
			docs2 := c02Docs(L2)
			sp := []*core.Space{
				c02PureSpace("pure-depth1", newDocSet(docs1, true)),
				c02PureSpace("pure-depth2", newDocSet(c02Successors(docs2), true)),
				c02BatchSpace(c02Docs(2)),
			}
			// handler level: also documents that start with U+FEFF (a byte order mark is part of the client's text)
			hdocs := append(append([]string{}, c02Docs(ht)...), "\ufeff", "\ufeffa\n")
			h := buildC02Hist(hdocs, hd+1)
			for k := 0; k <= hd; k++ {
				sp = append(sp, c02HandlerSpace(fmt.Sprintf("handlers-level%d", k), h, k))
			}
			ad := 3
			if tier == "thorough" {
				ad = 5
			}
			sp = append(sp, c02AnalysedSpace(ad))
			bd := 1
			if tier == "thorough" {
				bd = 2
			}
			sp = append(sp, c02HandlerBatchSpace(append(append([]string{}, c02Docs(bd)...), "\ufeffa\n")))
			sp = append(sp, c02ResyncSpace(append(append([]string{}, c02Docs(bd+1)...), "\ufeffa\n"), append(append([]string{}, c02Docs(1)...), "\ufeff", "a\r\nb")))
			return sp
		},
	})
}
