package checks

import (
	"fmt"
	"os"
	"path/filepath"
	"sort"
	"strings"

	"verif/internal/core"
	"verif/internal/drv"
)

// C18: module paths resolve as documented, consistently across features.

var c18Candidates = []string{"x.lua", "m/x.lua", "n/x.lua", "m/init.lua", "m.lua", "x.so", "x/q/x.lua", "io/x.lua"}
var c18Modules = []string{"x", "m.x", "m/x", "n.x", "m", "m.init", "q", "io.x"}
var c18Forms = []string{`require "%s"`, `require("%s")`, `dofile("%s.lua")`}
var c18Seps = []string{".", "/"}
var c18ReqFiles = []string{"main.lua", "m/main.lua"}

const c18ModuleText = "local M = {}\nM.who = 1\nreturn M\n"

type c18Case struct {
	tree   []string // candidate files present
	req    string
	module string
	form   string
	sep    string
	events []c18Ev
}

type c18Ev struct {
	create bool
	file   string
}

func (e c18Ev) String() string {
	if e.create {
		return "create(" + e.file + ")"
	}
	return "delete(" + e.file + ")"
}

func c18Subsets(c18Candidates []string, maxN int) [][]string {
	var out [][]string
	n := len(c18Candidates)
	for mask := 0; mask < 1<<uint(n); mask++ {
		var s []string
		for b := 0; b < n; b++ {
			if mask&(1<<uint(b)) != 0 {
				s = append(s, c18Candidates[b])
			}
		}
		if len(s) <= maxN {
			out = append(out, s)
		}
	}
	sort.Slice(out, func(i, j int) bool {
		if len(out[i]) != len(out[j]) {
			return len(out[i]) < len(out[j])
		}
		return strings.Join(out[i], ",") < strings.Join(out[j], ",")
	})
	return out
}

func (c c18Case) mainText() string {
	arg := c.module
	if strings.HasPrefix(c.form, "dofile") {
		arg = strings.ReplaceAll(strings.ReplaceAll(c.module, ".", "/"), "//", "/")
	}
	return "local mod = " + fmt.Sprintf(c.form, arg) + "\nprint(mod.who)\n"
}

// expectation of the documented mapping for the present file set
// returns must (must resolve), mustNot (must not resolve), and the set of acceptable target files
func (c c18Case) expect(present map[string]bool) (must, mustNot bool, accept map[string]bool) {
	accept = map[string]bool{}
	s := c.module
	other := "/"
	if c.sep == "/" {
		other = "."
	}
	isDofile := strings.HasPrefix(c.form, "dofile")
	if isDofile {
		s = strings.ReplaceAll(s, ".", "/")
	} else {
		if strings.Contains(s, other) {
			return false, false, accept // written with the other separator: not judged
		}
		s = strings.ReplaceAll(s, c.sep, "/")
	}
	rels := []string{s + ".lua"}
	if !isDofile {
		rels = append(rels, s+"/init.lua")
	}
	reqDir := filepath.Dir(c.req)
	for _, rel := range rels {
		for _, base := range []string{"", reqDir} {
			p := rel
			if base != "" && base != "." {
				p = base + "/" + rel
			}
			if present[p] {
				must = true
			}
		}
	}
	// any file whose path ends with one of the relative forms is an acceptable (fuzzy) target
	anySuffix := false
	for f := range present {
		for _, rel := range rels {
			if f == rel || strings.HasSuffix(f, "/"+rel) {
				accept[f] = true
				anySuffix = true
			}
		}
	}
	// a native module next to the mapping is tolerated (no diagnostic required either way)
	soTolerated := false
	if !isDofile {
		for f := range present {
			if strings.HasSuffix(f, ".so") && (f == s+".so" || strings.HasSuffix(f, "/"+s+".so")) {
				soTolerated = true
			}
		}
	}
	mustNot = !anySuffix && !soTolerated
	if soTolerated && !must {
		return false, false, accept
	}
	return must, mustNot, accept
}

func c18Space(tier string) *core.Space {
	maxTree := 3
	if tier == "thorough" {
		maxTree = 4
	}
	return c18SpaceOf("trees-x-requirer-x-module-x-form-x-separator-x-event", c18Candidates, c18Modules, c18Forms, maxTree)
}

// a module string that ends in ".lua": for require the dot is the module separator (x.lua is the module x/lua), for
// dofile it is the file suffix. Every subset of the files either reading could mean.
func c18SuffixSpace() *core.Space {
	return c18SpaceOf("module-strings-ending-in-.lua", []string{"x.lua", "x/lua.lua", "x/lua/init.lua", "m/x.lua"}, []string{"x.lua", "m.x.lua"},
		[]string{`require "%s"`, `require("%s")`}, 4)
}

// a directory whose name merely ends with the first segment of the module path (zm/x.lua is not the module m.x)
func c18DirSuffixSpace() *core.Space {
	return c18SpaceOf("directories-whose-name-ends-with-the-first-segment", []string{"zm/x.lua", "m/x.lua", "x.lua", "zm/init.lua"}, []string{"m.x", "m/x", "m"}, c18Forms, 4)
}

func c18SpaceOf(spaceName string, c18Candidates, c18Modules, c18Forms []string, maxTree int) *core.Space {
	trees := c18Subsets(c18Candidates, maxTree)
	// events: none, or one create/delete of a candidate
	type evChoice struct{ file string }
	nEv := 1 + len(c18Candidates)
	dims := []int{len(trees), len(c18ReqFiles), len(c18Modules), len(c18Forms), len(c18Seps), nEv}
	n := int64(1)
	for _, d := range dims {
		n *= int64(d)
	}
	decode := func(i int64) c18Case {
		ix := make([]int, len(dims))
		for k := len(dims) - 1; k >= 0; k-- {
			ix[k] = int(i % int64(dims[k]))
			i /= int64(dims[k])
		}
		c := c18Case{tree: trees[ix[0]], req: c18ReqFiles[ix[1]], module: c18Modules[ix[2]], form: c18Forms[ix[3]], sep: c18Seps[ix[4]]}
		if ix[5] > 0 {
			f := c18Candidates[ix[5]-1]
			has := false
			for _, t := range c.tree {
				if t == f {
					has = true
				}
			}
			c.events = []c18Ev{{create: !has, file: f}}
		}
		return c
	}
	return &core.Space{
		Name: spaceName, N: n, Chunk: 100, RecycleEvery: 30,
		Describe: func(i int64) interface{} {
			c := decode(i)
			return map[string]interface{}{"files": c.tree, "requiring_file": c.req, "text": c.mainText(), "separator": c.sep, "events": fmt.Sprint(c.events)}
		},
		Run: func(i int64, r *core.Result) {
			c := decode(i)
			r.Evaluated++
			files := map[string]string{c.req: c.mainText()}
			present := map[string]bool{}
			for _, f := range c.tree {
				present[f] = true
				if strings.HasSuffix(f, ".so") {
					files[f] = "\x7fELF"
				} else {
					files[f] = c18ModuleText
				}
			}
			root := drv.NewWorkspace(files)
			defer drv.RemoveWorkspace(root)
			opts := drv.AllChecks()
			opts["RequirePathSeparator"] = c.sep
			s, err := drv.Start(root, drv.Options{InitOptions: opts})
			if err != nil {
				r.Fail("c18", i, "server-start-failed", fmt.Sprint(c), map[string]interface{}{"error": err.Error()})
				return
			}
			defer s.Close()
			text := c.mainText()
			s.Open(c.req, text)
			strCol := strings.Index(text, `"`) + 1
			judge := func(stage string) {
				r.States++
				must, mustNot, accept := c.expect(present)
				has6 := false
				for _, d := range s.Diags[c.req] {
					if d.Type == 6 {
						has6 = true
					}
				}
				defs, _ := s.Definition(c.req, 0, strCol)
				hov, _ := s.Hover(c.req, 0, strCol)
				who, _ := s.Definition(c.req, 1, 10)
				r.Transitions += 3
				defFile := ""
				if len(defs) > 0 {
					defFile = s.Rel(defs[0].URI)
				}
				whoFile := ""
				if len(who) > 0 {
					whoFile = s.Rel(who[0].URI)
				}
				hovFile := ""
				for f := range present {
					if strings.Contains(hov, f) && len(f) > len(hovFile) {
						hovFile = f
					}
				}
				ctx := fmt.Sprintf("files %v | %s: %s | sep %s | %s", sortedKeys(present), c.req, strings.Split(text, "\n")[0], c.sep, stage)
				fail := func(sig string) {
					r.Outcome(sig)
					coreS := sig + " | " + ctx
					r.Fail("c18", i, sig, coreS, map[string]interface{}{"failure_core": coreS, "type6": has6, "definition_on_string": defFile, "hover_on_string": hov,
						"definition_of_member": whoFile, "must_resolve": must, "must_not_resolve": mustNot, "events": fmt.Sprint(c.events)})
				}
				// consistency of the three features
				if has6 && defFile != "" {
					fail("file-not-found-reported-but-definition-opens-a-file")
				}
				if !has6 && defFile == "" && must {
					fail("no-diagnostic-but-definition-finds-no-file")
				}
				// several equally ranked fuzzy candidates and no exact one: which of them is taken is C09's subject
				// (it depends on map iteration order), so the agreement of the features is judged only otherwise
				unique := true // since the tie-break fixes fed7a88 / 9b489cf the choice among equal candidates is deterministic
				_ = accept
				if unique && defFile != "" && hovFile != "" && defFile != hovFile {
					fail("definition-and-hover-name-different-files")
				}
				if unique && whoFile != "" && whoFile != c.req && defFile != "" && whoFile != defFile {
					fail("analysis-loaded-another-file-than-definition-opens")
				}
				// documented mapping
				if must && has6 {
					fail("existing-module-reported-not-found")
				}
				if must && defFile != "" && !accept[defFile] {
					fail("resolved-to-a-file-that-does-not-match-the-module-path")
				}
				if mustNot && !has6 {
					fail("missing-module-not-reported")
				}
				if mustNot && defFile != "" {
					fail("missing-module-resolved-to-a-file")
				}
				switch {
				case must:
					r.Outcome("must-resolve")
				case mustNot:
					r.Outcome("must-not-resolve")
				default:
					r.Outcome("not-judged-by-mapping")
				}
			}
			if must, _, _ := c.expect(present); must || len(c.events) > 0 {
				r.Nontrivial++
			}
			var later []func()
			judge("initial")
			for _, e := range c.events {
				p := filepath.Join(root, e.file)
				if e.create {
					os.MkdirAll(filepath.Dir(p), 0o755)
					if strings.HasSuffix(e.file, ".so") {
						os.WriteFile(p, []byte("\x7fELF"), 0o644)
					} else {
						os.WriteFile(p, []byte(c18ModuleText), 0o644)
					}
					present[e.file] = true
					if strings.HasSuffix(e.file, ".lua") {
						s.Watched([]drv.FileEvent{{Rel: e.file, Type: 1}})
					}
				} else {
					os.Remove(p)
					delete(present, e.file)
					if strings.HasSuffix(e.file, ".lua") {
						s.Watched([]drv.FileEvent{{Rel: e.file, Type: 3}})
					}
				}
				r.Transitions++
				if strings.HasSuffix(e.file, ".so") {
					// native modules are not watched: no event reaches the server. The next save of the requiring file
					// (changed content) must bring its missing-module diagnostics in line with a fresh start on that disk
					saved := text + "-- saved\n"
					os.WriteFile(filepath.Join(root, c.req), []byte(saved), 0o644)
					s.ChangeFull(c.req, saved)
					s.Save(c.req, saved)
					s.Watched([]drv.FileEvent{{Rel: c.req, Type: 2}})
					var t6 []string
					for _, d := range s.Diags[c.req] {
						if d.Type == 6 {
							t6 = append(t6, d.Key())
						}
					}
					sort.Strings(t6)
					disk := map[string]string{}
					for f := range present {
						b, _ := os.ReadFile(filepath.Join(root, f))
						disk[f] = string(b)
					}
					disk[c.req] = saved
					label, got := "after-"+e.String()+"-and-save", strings.Join(t6, " ; ")
					later = append(later, func() {
						root2 := drv.NewWorkspace(disk)
						defer drv.RemoveWorkspace(root2)
						s2, err := drv.Start(root2, drv.Options{InitOptions: drv.AllChecks()})
						if err != nil {
							return
						}
						defer s2.Close()
						var f6 []string
						for _, d := range s2.Diags[c.req] {
							if d.Type == 6 {
								f6 = append(f6, d.Key())
							}
						}
						sort.Strings(f6)
						r.States++
						if want := strings.Join(f6, " ; "); want != got {
							sig := "missing-module-diagnostics-differ-from-a-fresh-start-after-a-native-module-event"
							r.Outcome(sig)
							coreS := fmt.Sprintf("%s | files %v | %s: %s | sep %s | %s", sig, sortedKeys(present), c.req, strings.Split(text, "\n")[0], c.sep, label)
							r.Fail("c18", i, sig, coreS, map[string]interface{}{"failure_core": coreS, "files": sortedKeys(present), "requiring_file": c.req, "text": saved, "stage": label, "fresh_server": want, "history_server": got})
						} else {
							r.Outcome("native-module-event-followed-by-save-agrees-with-fresh-start")
						}
					})
					continue
				}
				judge("after-" + e.String())
			}
			s.Close()
			for _, f := range later {
				f()
			}
			if i%997 == 0 {
				r.Sample(map[string]interface{}{"files": c.tree, "requiring_file": c.req, "text": text, "separator": c.sep, "events": fmt.Sprint(c.events), "diagnostics": s.Diags[c.req]})
			}
		},
	}
}

func sortedKeys(m map[string]bool) []string {
	var k []string
	for s := range m {
		k = append(k, s)
	}
	sort.Strings(k)
	return k
}

func init() {
	core.Register(&core.Check{
		ID:        "C18",
		Technique: "bounded-exhaustive enumeration of directory trees x requiring file x module string x call form x separator x one create/delete event, on the real server; three-valued reference resolver plus cross-feature consistency",
		Rule: "trees: every subset of <=3 (quick) / <=4 (thorough) of {x.lua, m/x.lua, n/x.lua, m/init.lua, m.lua, x.so}; requiring file at the root or in m/; module strings {x, m.x, m/x, n.x, m, m.init, q}; forms require \"s\", require(\"s\"), dofile(\"s.lua\"); separator . or /; then no event or one watched create/delete of a candidate; a second space: module strings ending in .lua (x.lua, m.x.lua; for require the dot separates modules) over every subset of {x.lua, x/lua.lua, x/lua/init.lua, m/x.lua}; a third: modules m.x, m/x, m over every subset of {zm/x.lua, m/x.lua, x.lua, zm/init.lua} (a directory whose name only ends with the first segment). " +
			"Judged before and after the event: type 6 <=> definition on the string finds no file; definition, hover and the file the analysis loaded (definition of a member of the required module) name the same file; a module that exists at the documented path (relative to the root or the requiring file's directory, name.lua then name/init.lua) must resolve to a file with that trailing path; " +
			"a module for which no file has that trailing path must be reported. states = judgements; non-trivial = cases that must resolve or carry an event",
		Assumptions: []string{"fuzzy suffix matches are accepted as targets (don't-care zone of the mapping)", "module strings written with the other separator are not judged", "native .so modules are tolerated: neither resolution nor a diagnostic is required"},
		Flavour:     "prod+overlay", QuickBudgetS: 200, ThoroughBudgetS: 1200,
		Spaces: func(tier string) []*core.Space {
			return []*core.Space{c18Space(tier), c18SuffixSpace(), c18DirSuffixSpace()}
		},
	})
}
