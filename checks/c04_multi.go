package checks

import (
	"fmt"
	"regexp"
	"sort"
	"strings"

	"verif/internal/core"
	"verif/internal/drv"
	"verif/internal/luaref"
	"verif/internal/textref"
)

// Two-file workspaces: every range of every answer is judged against the text of the file the answer names (for
// documentHighlight, which carries no URI, the requested document). The second file places its declarations at
// positions that do not exist, or hold other text, in the first one.

var c04MultiMain = []string{
	"print(gfar)\ngfn()\n",
	"local v = gfar\nprint(v, gfn(gfar))\n",
	"gfar = 2\nlocal function lf() return gfn end\nprint(lf, gfar)\n",
	"cfg = {net = {}}\n_G.cfg.net.abc = 1\nprint(cfg.net.abc)\n",
	"cfg = {}\n_G.cfg.name = gfar\ncfg.other = _G.cfg.name\n",
	"local m = require(\"o\")\nprint(m, gfar)\n",
	"local m = require(\"o\")\nprint(m.bar)\nlocal k = m.bar\nm.bar()\nprint(k)\n",
}

var c04MultiOther = []string{
	"\n\n\n\n\n                    local pad = 1; gfar = 1\nfunction gfn(a) return a end\nlocal M = {}\nM.foo = 1\nfunction M.bar() end\nreturn M\n",
	"gfar = 1; function gfn(a) return a end\nlocal M = {}\nM.foo = 1\nfunction M.bar() end\nreturn M\n",
	"-- comment\n\tlocal s = \"x\"; gfar = s\n\n\n\n\nfunction     gfn(a) return a end\nlocal M = {}\nM.foo = 1\nfunction M.bar() end\nreturn M\n",
}

var reIdent = regexp.MustCompile(`^[A-Za-z_][A-Za-z0-9_]*$`)

func c04MultiSpace() *core.Space {
	n := int64(len(c04MultiMain) * len(c04MultiOther) * len(c04EOLs))
	decode := func(i int64) map[string]string {
		e := c04EOLs[i%int64(len(c04EOLs))].s
		i /= int64(len(c04EOLs))
		o := c04MultiOther[i%int64(len(c04MultiOther))]
		i /= int64(len(c04MultiOther))
		m := c04MultiMain[i]
		return map[string]string{"m.lua": strings.ReplaceAll(m, "\n", e), "o.lua": strings.ReplaceAll(o, "\n", e)}
	}
	name := "two-files-answers-judged-in-the-file-they-name"
	return &core.Space{
		Name: name, N: n, Chunk: 10, RecycleEvery: 20,
		Describe: func(i int64) interface{} { return decode(i) },
		Run: func(i int64, r *core.Result) {
			files := decode(i)
			r.Evaluated++
			r.Nontrivial++
			root := drv.NewWorkspace(files)
			defer drv.RemoveWorkspace(root)
			s, err := drv.Start(root, drv.Options{InitOptions: drv.AllChecks()})
			if err != nil {
				r.Fail(name, i, "server-start-failed", fmt.Sprint(files), map[string]interface{}{"error": err.Error()})
				return
			}
			defer s.Close()
			var fnames []string
			for f := range files {
				fnames = append(fnames, f)
			}
			sort.Strings(fnames)
			for _, f := range fnames {
				s.Open(f, files[f])
			}
			slice := func(file string, rg drv.Range) (string, bool) {
				text, known := files[file]
				if !known {
					return "", false
				}
				so, c1, ok1 := textref.Offset(text, textref.Pos{Line: rg.Start.Line, Char: rg.Start.Character})
				eo, c2, ok2 := textref.Offset(text, textref.Pos{Line: rg.End.Line, Char: rg.End.Character})
				if !ok1 || !ok2 || c1 || c2 || so > eo {
					return "", false
				}
				return text[so:eo], true
			}
			judge := func(what, asked, file string, rg drv.Range, want string) {
				r.States++
				got, ok := slice(file, rg)
				sig := ""
				if !ok {
					sig = "range-outside-document-or-inverted:" + what
				} else if want != "" && got != want {
					sig = "range-does-not-cover-the-identifier:" + what
				}
				if sig == "" {
					r.Outcome("well-formed:" + what)
					return
				}
				r.Outcome(sig)
				line := lineAt(files[file], rg)
				coreS := fmt.Sprintf("%s | asked in %s at %s | answered %s %s | %s", sig, asked, want, file, rg.String(), line)
				r.Fail(name, i, sig, coreS, map[string]interface{}{"failure_core": coreS, "files": files, "request": what, "asked": asked, "answer_file": file, "range": rg.String(), "text_under_range": got, "expected_text": want})
			}
			for _, f := range fnames {
				text := files[f]
				lx := luaref.Lex(text)
				for _, t := range lx.Tokens {
					if t.Kind != luaref.Name {
						continue
					}
					tr := rng(text, luaref.Span{Start: t.Start, End: t.End})
					asked := fmt.Sprintf("%s:%d:%d", f, tr.Start.Line, tr.Start.Character)
					if locs, err := s.Definition(f, tr.Start.Line, tr.Start.Character); err == nil {
						r.Transitions++
						for _, l := range locs {
							judge("definition", asked, s.Rel(l.URI), l.Range, t.Text)
						}
					}
					if locs, err := s.References(f, tr.Start.Line, tr.Start.Character); err == nil {
						r.Transitions++
						for _, l := range locs {
							judge("references", asked, s.Rel(l.URI), l.Range, t.Text)
						}
					}
					if hs, err := s.Highlight(f, tr.Start.Line, tr.Start.Character); err == nil {
						r.Transitions++
						for _, h := range hs {
							judge("highlight", asked, f, h.Range, t.Text)
						}
					}
					if eds, err := s.Rename(f, tr.Start.Line, tr.Start.Character, "zz"); err == nil {
						r.Transitions++
						for ef, l := range eds {
							for _, ed := range l {
								judge("rename-edit", asked, ef, ed.Range, t.Text)
							}
						}
					}
				}
				if syms, err := s.DocSymbols(f); err == nil {
					var flat []drv.DocSymbol
					flattenSyms(syms, &flat)
					for _, sy := range flat {
						judge("document-symbol", f, f, sy.Range, "")
						// a selection range that covers exactly one identifier must cover the symbol's own name
						want := ""
						if got, ok := slice(f, sy.SelectionRange); ok && reIdent.MatchString(got) && reIdent.MatchString(sy.Name) {
							want = sy.Name
						}
						judge("document-symbol-selection", f, f, sy.SelectionRange, want)
					}
				}
			}
			for _, q := range []string{"gfar", "gfn", "abc", "cfg"} {
				if ws, err := s.WsSymbols(q); err == nil {
					for _, w := range ws {
						want := ""
						if got, ok := slice(s.Rel(w.Location.URI), w.Location.Range); ok && reIdent.MatchString(got) && reIdent.MatchString(w.Name) {
							want = w.Name
						}
						judge("workspace-symbol", "query "+q, s.Rel(w.Location.URI), w.Location.Range, want)
					}
				}
			}
			for f, ds := range s.Diags {
				if _, ok := files[f]; !ok {
					continue
				}
				for _, d := range ds {
					want := ""
					if m := reUndef.FindStringSubmatch(d.Msg); m != nil && (d.Type == 2 || d.Type == 3) {
						want = m[1]
					}
					if m := reUnused.FindStringSubmatch(d.Msg); m != nil && d.Type == 4 {
						want = m[1]
					}
					judge(fmt.Sprintf("diagnostic-type%d", d.Type), "diagnostics", f, d.Range, want)
				}
			}
		},
	}
}

// Identifiers inside annotation comments (class, parent, field, generic and its constraint, alias names): go-to-definition
// asked on each of them must answer ranges that cover an identifier spelled like the one asked about.
var c04AnnotationDocs = []string{
	"---@class Animal\n---@field name string\nlocal Animal = {}\n---@class Dog : Animal\n---@field tail number\nlocal Dog = {}\n---@generic T : Animal\n---@param x T\n---@return T\nlocal function f(x) return x end\n---@type Dog\nlocal pet = f(Dog)\nprint(pet.name, pet.tail)\n",
	"---@alias Mode string\n---@generic K : Mode, V\n---@param k K\n---@param v V\n---@return table<K, V>\nlocal function pair(k, v) return {[k] = v} end\n---@type Mode\nlocal m = \"r\"\nprint(pair(m, 1))\n",
	"    ---@class Shape @c\n    ---@field area fun(self: Shape): number\n    local Shape = {}\n    ---@generic S : Shape\n    ---@param s S @the shape\n    ---@return S, number\n    local function measure(s) return s, 1 end\n    print(measure(Shape))\n",
}

func init() {
	c04AnnotationDocs = append(c04AnnotationDocs,
		"---@class Person\n---@field public name string\n---@field private secret number\n---@field protected owner Person\n---@field age number\nlocal Person = {}\n---@type Person\nlocal p = Person\nprint(p.name, p.secret, p.owner, p.age)\n")
}

var reAnnWord = regexp.MustCompile(`[A-Za-z_][A-Za-z0-9_]*`)

func c04AnnotationSpace() *core.Space {
	n := int64(len(c04AnnotationDocs) * len(c04EOLs))
	name := "identifiers-inside-annotation-comments"
	skip := map[string]bool{"class": true, "field": true, "generic": true, "param": true, "return": true, "type": true, "alias": true, "string": true, "number": true,
		"table": true, "fun": true, "self": true, "c": true, "the": true, "shape": true}
	return &core.Space{
		Name: name, N: n, Chunk: 3, RecycleEvery: 10,
		Describe: func(i int64) interface{} {
			return map[string]interface{}{"m.lua": strings.ReplaceAll(c04AnnotationDocs[i/int64(len(c04EOLs))], "\n", c04EOLs[i%int64(len(c04EOLs))].s)}
		},
		Run: func(i int64, r *core.Result) {
			eol := c04EOLs[i%int64(len(c04EOLs))]
			text := strings.ReplaceAll(c04AnnotationDocs[i/int64(len(c04EOLs))], "\n", eol.s)
			r.Evaluated++
			r.Nontrivial++
			root := drv.NewWorkspace(map[string]string{"m.lua": text})
			defer drv.RemoveWorkspace(root)
			s, err := drv.Start(root, drv.Options{InitOptions: drv.AllChecks()})
			if err != nil {
				r.Fail(name, i, "server-start-failed", text, map[string]interface{}{"error": err.Error()})
				return
			}
			defer s.Close()
			s.Open("m.lua", text)
			// members used in the Lua code: a definition that lands on an annotation line must cover the member's name
			for _, t := range luaref.Lex(text).Tokens {
				if t.Kind != luaref.Name {
					continue
				}
				tr := rng(text, luaref.Span{Start: t.Start, End: t.End})
				locs, err := s.Definition("m.lua", tr.Start.Line, tr.Start.Character)
				r.Transitions++
				if err != nil {
					continue
				}
				for _, loc := range locs {
					if s.Rel(loc.URI) != "m.lua" {
						continue
					}
					so, c1, ok1 := textref.Offset(text, textref.Pos{Line: loc.Range.Start.Line, Char: loc.Range.Start.Character})
					eo, c2, ok2 := textref.Offset(text, textref.Pos{Line: loc.Range.End.Line, Char: loc.Range.End.Character})
					if !ok1 || !ok2 || c1 || c2 || so > eo {
						continue
					}
					ll := textref.Lines(text)[loc.Range.Start.Line]
					if !strings.Contains(text[ll.Start:ll.End], "---@") {
						continue
					}
					r.States++
					if got := text[so:eo]; got != t.Text {
						sig := "definition-of-a-member-lands-on-other-text-of-the-annotation-line"
						coreS := fmt.Sprintf("%s | asked %q | answered %s %q | %s | eol %s", sig, t.Text, loc.Range, got, strings.TrimSpace(text[ll.Start:ll.End]), eol.name)
						r.Outcome(sig)
						r.Fail(name, i, sig, coreS, map[string]interface{}{"failure_core": coreS, "m.lua": text, "asked": t.Text, "range": loc.Range.String(), "text_under_range": got})
					} else {
						r.Outcome("member-definition-covers-the-field-name")
					}
				}
			}
			lines := textref.Lines(text)
			for ln, l := range lines {
				lt := text[l.Start:l.End]
				at := strings.Index(lt, "---@")
				if at < 0 {
					continue
				}
				for _, m := range reAnnWord.FindAllStringIndex(lt[at:], -1) {
					w := lt[at+m[0] : at+m[1]]
					if skip[w] {
						continue
					}
					col := textref.Units(lt[:at+m[0]])
					locs, err := s.Definition("m.lua", ln, col)
					r.Transitions++
					if err != nil {
						continue
					}
					for _, loc := range locs {
						if s.Rel(loc.URI) != "m.lua" {
							continue
						}
						r.States++
						so, c1, ok1 := textref.Offset(text, textref.Pos{Line: loc.Range.Start.Line, Char: loc.Range.Start.Character})
						eo, c2, ok2 := textref.Offset(text, textref.Pos{Line: loc.Range.End.Line, Char: loc.Range.End.Character})
						got := ""
						if ok1 && ok2 && !c1 && !c2 && so <= eo {
							got = text[so:eo]
						}
						if got == w {
							r.Outcome("definition-of-annotation-identifier-covers-it")
							continue
						}
						sig := "definition-of-an-annotation-identifier-covers-other-text"
						coreS := fmt.Sprintf("%s | %s | asked %q at %d:%d | answered %s %q | eol %s", sig, strings.TrimSpace(lt), w, ln, col, loc.Range, got, eol.name)
						r.Outcome(sig)
						r.Fail(name, i, sig, coreS, map[string]interface{}{"failure_core": coreS, "m.lua": text, "asked": w, "position": fmt.Sprintf("%d:%d", ln, col), "range": loc.Range.String(), "text_under_range": got})
					}
				}
			}
		},
	}
}
