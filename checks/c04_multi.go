package checks

import (
	"fmt"
	"regexp"
	"sort"
	"strings"

	"verif/internal/core"
	"verif/internal/drv"
	"verif/internal/luaref"
	"verif/internal/textref"
)

// Two-file workspaces: every range of every answer is judged against the text of the file the answer names (for
// documentHighlight, which carries no URI, the requested document). The second file places its declarations at
// positions that do not exist, or hold other text, in the first one.

var c04MultiMain = []string{
	"print(gfar)\ngfn()\n",
	"local v = gfar\nprint(v, gfn(gfar))\n",
	"gfar = 2\nlocal function lf() return gfn end\nprint(lf, gfar)\n",
	"cfg = {net = {}}\n_G.cfg.net.abc = 1\nprint(cfg.net.abc)\n",
	"cfg = {}\n_G.cfg.name = gfar\ncfg.other = _G.cfg.name\n",
	"local m = require(\"o\")\nprint(m, gfar)\n",
}

var c04MultiOther = []string{
	"\n\n\n\n\n                    local pad = 1; gfar = 1\nfunction gfn(a) return a end\nreturn {}\n",
	"gfar = 1; function gfn(a) return a end\nreturn {}\n",
	"-- comment\n\tlocal s = \"x\"; gfar = s\n\n\n\n\nfunction     gfn(a) return a end\nreturn {}\n",
}

var reIdent = regexp.MustCompile(`^[A-Za-z_][A-Za-z0-9_]*$`)

func c04MultiSpace() *core.Space {
	n := int64(len(c04MultiMain) * len(c04MultiOther) * len(c04EOLs))
	decode := func(i int64) map[string]string {
		e := c04EOLs[i%int64(len(c04EOLs))].s
		i /= int64(len(c04EOLs))
		o := c04MultiOther[i%int64(len(c04MultiOther))]
		i /= int64(len(c04MultiOther))
		m := c04MultiMain[i]
		return map[string]string{"m.lua": strings.ReplaceAll(m, "\n", e), "o.lua": strings.ReplaceAll(o, "\n", e)}
	}
	name := "two-files-answers-judged-in-the-file-they-name"
	return &core.Space{
		Name: name, N: n, Chunk: 10, RecycleEvery: 20,
		Describe: func(i int64) interface{} { return decode(i) },
		Run: func(i int64, r *core.Result) {
			files := decode(i)
			r.Evaluated++
			r.Nontrivial++
			root := drv.NewWorkspace(files)
			defer drv.RemoveWorkspace(root)
			s, err := drv.Start(root, drv.Options{InitOptions: drv.AllChecks()})
			if err != nil {
				r.Fail(name, i, "server-start-failed", fmt.Sprint(files), map[string]interface{}{"error": err.Error()})
				return
			}
			defer s.Close()
			var fnames []string
			for f := range files {
				fnames = append(fnames, f)
			}
			sort.Strings(fnames)
			for _, f := range fnames {
				s.Open(f, files[f])
			}
			slice := func(file string, rg drv.Range) (string, bool) {
				text, known := files[file]
				if !known {
					return "", false
				}
				so, c1, ok1 := textref.Offset(text, textref.Pos{Line: rg.Start.Line, Char: rg.Start.Character})
				eo, c2, ok2 := textref.Offset(text, textref.Pos{Line: rg.End.Line, Char: rg.End.Character})
				if !ok1 || !ok2 || c1 || c2 || so > eo {
					return "", false
				}
				return text[so:eo], true
			}
			judge := func(what, asked, file string, rg drv.Range, want string) {
				r.States++
				got, ok := slice(file, rg)
				sig := ""
				if !ok {
					sig = "range-outside-document-or-inverted:" + what
				} else if want != "" && got != want {
					sig = "range-does-not-cover-the-identifier:" + what
				}
				if sig == "" {
					r.Outcome("well-formed:" + what)
					return
				}
				r.Outcome(sig)
				line := lineAt(files[file], rg)
				coreS := fmt.Sprintf("%s | asked in %s at %s | answered %s %s | %s", sig, asked, want, file, rg.String(), line)
				r.Fail(name, i, sig, coreS, map[string]interface{}{"failure_core": coreS, "files": files, "request": what, "asked": asked, "answer_file": file, "range": rg.String(), "text_under_range": got, "expected_text": want})
			}
			for _, f := range fnames {
				text := files[f]
				lx := luaref.Lex(text)
				for _, t := range lx.Tokens {
					if t.Kind != luaref.Name {
						continue
					}
					tr := rng(text, luaref.Span{Start: t.Start, End: t.End})
					asked := fmt.Sprintf("%s:%d:%d", f, tr.Start.Line, tr.Start.Character)
					if locs, err := s.Definition(f, tr.Start.Line, tr.Start.Character); err == nil {
						r.Transitions++
						for _, l := range locs {
							judge("definition", asked, s.Rel(l.URI), l.Range, t.Text)
						}
					}
					if locs, err := s.References(f, tr.Start.Line, tr.Start.Character); err == nil {
						r.Transitions++
						for _, l := range locs {
							judge("references", asked, s.Rel(l.URI), l.Range, t.Text)
						}
					}
					if hs, err := s.Highlight(f, tr.Start.Line, tr.Start.Character); err == nil {
						r.Transitions++
						for _, h := range hs {
							judge("highlight", asked, f, h.Range, t.Text)
						}
					}
					if eds, err := s.Rename(f, tr.Start.Line, tr.Start.Character, "zz"); err == nil {
						r.Transitions++
						for ef, l := range eds {
							for _, ed := range l {
								judge("rename-edit", asked, ef, ed.Range, t.Text)
							}
						}
					}
				}
				if syms, err := s.DocSymbols(f); err == nil {
					var flat []drv.DocSymbol
					flattenSyms(syms, &flat)
					for _, sy := range flat {
						judge("document-symbol", f, f, sy.Range, "")
						// a selection range that covers exactly one identifier must cover the symbol's own name
						want := ""
						if got, ok := slice(f, sy.SelectionRange); ok && reIdent.MatchString(got) && reIdent.MatchString(sy.Name) {
							want = sy.Name
						}
						judge("document-symbol-selection", f, f, sy.SelectionRange, want)
					}
				}
			}
			for _, q := range []string{"gfar", "gfn", "abc", "cfg"} {
				if ws, err := s.WsSymbols(q); err == nil {
					for _, w := range ws {
						want := ""
						if got, ok := slice(s.Rel(w.Location.URI), w.Location.Range); ok && reIdent.MatchString(got) && reIdent.MatchString(w.Name) {
							want = w.Name
						}
						judge("workspace-symbol", "query "+q, s.Rel(w.Location.URI), w.Location.Range, want)
					}
				}
			}
			for f, ds := range s.Diags {
				if _, ok := files[f]; !ok {
					continue
				}
				for _, d := range ds {
					want := ""
					if m := reUndef.FindStringSubmatch(d.Msg); m != nil && (d.Type == 2 || d.Type == 3) {
						want = m[1]
					}
					if m := reUnused.FindStringSubmatch(d.Msg); m != nil && d.Type == 4 {
						want = m[1]
					}
					judge(fmt.Sprintf("diagnostic-type%d", d.Type), "diagnostics", f, d.Range, want)
				}
			}
		},
	}
}
