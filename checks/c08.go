package checks

import (
	"fmt"
	"os"
	"path/filepath"
	"sort"
	"strings"

	"verif/internal/core"
	"verif/internal/drv"
	"verif/internal/textref"
)

// C08: after any edit/file-event history, diagnostics equal those of a fresh start.

var c08Files = []string{"a.lua", "b.lua"}

// layouts: where the second file lives and how the first one requires it. The flat layout is the default; the dotted
// layout resolves the module through a directory path (require("sub.b") -> sub/b.lua), the package layout through init.lua.
type c08Layout struct {
	name    string
	files   []string
	require string
	// extra: files that exist throughout and are never touched by an event
	extra map[string]string
}

var c08Layouts = []c08Layout{
	{"flat", []string{"a.lua", "b.lua"}, "local m = require(\"b\")\nprint(m)\n", nil},
	{"dotted", []string{"a.lua", "sub/b.lua"}, "local m = require(\"sub.b\")\nprint(m)\n", nil},
	{"package", []string{"a.lua", "pkg/init.lua"}, "local m = require(\"pkg\")\nprint(m)\n", nil},
	// two modules of the same name in different directories: the one the events touch and a bystander
	{"duplicate-name", []string{"a.lua", "sub1/b.lua"}, "local m = require(\"b\")\nprint(m)\n", map[string]string{"sub2/b.lua": "return {}\n"}},
}

var c08CurLayout = "flat"
var c08Extra map[string]string

func c08Use(l c08Layout) {
	c08Files = l.files
	c08Variants[5].text = l.require
	c08CurLayout = l.name
	c08Extra = l.extra
}

// content variants
var c08Variants = []struct{ name, text string }{
	{"clean", "local x = 1\nprint(x)\n"},
	{"syntax-error", "local x = = 1\n"},
	{"unused-local", "local u = 1\n"},
	{"defines-g", "g = 1\n"},
	{"reads-g", "print(g)\n"},
	{"requires-b", "local m = require(\"b\")\nprint(m)\n"},
	// only used by the edit/save cycles (the general alphabets take the first six variants)
	{"empty", ""},
	{"unused-local-below-two-blank-lines", "\n\nlocal u = 1\n"},
	{"reads-h", "print(h)\n"},
}

type c08Event struct {
	kind string // open change save close create delete extchange
	file int
	v    int
}

func (e c08Event) String() string {
	f := c08Files[e.file]
	switch e.kind {
	case "change", "create", "extchange", "replace":
		return fmt.Sprintf("%s(%s,%s)", e.kind, f, c08Variants[e.v].name)
	}
	return fmt.Sprintf("%s(%s)", e.kind, f)
}

func c08Alphabet(nvar int) []c08Event {
	var evs []c08Event
	for f := range c08Files {
		for _, k := range []string{"open", "save", "save-unwatched", "close", "delete"} {
			evs = append(evs, c08Event{k, f, 0})
		}
		for _, k := range []string{"change", "create", "extchange"} {
			for v := 0; v < nvar; v++ {
				evs = append(evs, c08Event{k, f, v})
			}
		}
	}
	return evs
}

// reference client state
type c08State struct {
	disk [2]int // variant index, -1 absent
	buf  [2]int // -1 not open, else variant index of the buffer text
	// touched: the buffer was edited since it was opened / saved. A touched buffer whose text equals the
	// disk again is in neither regime of the statement (the server cannot know): that file is not judged.
	touched [2]bool
}

func (s c08State) unsaved(f int) bool { return s.buf[f] >= 0 && s.buf[f] != s.disk[f] }
func (s c08State) key() string        { return fmt.Sprint(s.disk, s.buf) }

// step applies e if a conformant client can produce it in state s.
func (s c08State) step(e c08Event) (c08State, bool) {
	n := s
	f := e.file
	switch e.kind {
	case "open":
		if s.disk[f] < 0 || s.buf[f] >= 0 {
			return s, false
		}
		n.buf[f] = s.disk[f]
		n.touched[f] = false
	case "change":
		if s.buf[f] < 0 || s.buf[f] == e.v {
			return s, false
		}
		n.buf[f] = e.v
		n.touched[f] = true
	case "save", "save-unwatched":
		if s.buf[f] < 0 || !(s.unsaved(f) || s.touched[f]) {
			return s, false // the editor only saves a dirty document (possibly with bytes identical to the disk)
		}
		n.disk[f] = s.buf[f]
		n.touched[f] = false
	case "close":
		if s.buf[f] < 0 {
			return s, false
		}
		n.buf[f] = -1
		n.touched[f] = false
	case "create":
		if s.disk[f] >= 0 {
			return s, false
		}
		n.disk[f] = e.v
	case "delete":
		if s.disk[f] < 0 || s.buf[f] >= 0 {
			return s, false
		}
		n.disk[f] = -1
	case "extchange", "replace":
		if s.disk[f] < 0 || s.buf[f] >= 0 || s.disk[f] == e.v {
			return s, false
		}
		n.disk[f] = e.v
	}
	return n, true
}

func c08DiskFiles(s c08State) map[string]string {
	m := map[string]string{}
	for f, v := range s.disk {
		if v >= 0 {
			m[c08Files[f]] = c08Variants[v].text
		}
	}
	for k, v := range c08Extra {
		m[k] = v
	}
	return m
}

// fresh view of a disk state (diagnostics per file as canonical strings, plus definition answers), cached per worker
type c08Fresh struct {
	diags map[string][]drv.Diag
	defs  map[string]string // file -> answers at the fixed positions (only for files given as open)
}

var c08FreshCache = map[string]*c08Fresh{}

var c08QueryPos = [][2]int{{0, 0}, {0, 6}, {1, 6}}

func c08Definitions(s *drv.Server, rel string) string {
	var parts []string
	for _, p := range c08QueryPos {
		locs, err := s.Definition(rel, p[0], p[1])
		if err != nil {
			parts = append(parts, "error:"+err.Error())
			continue
		}
		parts = append(parts, frSet(locsToFR(s, locs)))
		if refs, err := s.References(rel, p[0], p[1]); err == nil {
			parts = append(parts, "refs:"+frSet(locsToFR(s, refs)))
		} else {
			parts = append(parts, "refs-error:"+err.Error())
		}
	}
	// bare-identifier completion behind the identifiers of the variants (labels of the alphabet's names only)
	for _, p := range [][2]int{{0, 7}, {1, 7}} {
		items, err := s.Completion(rel, p[0], p[1], "")
		if err != nil {
			parts = append(parts, "error:"+err.Error())
			continue
		}
		var ls []string
		for _, it := range items {
			switch it.Label {
			case "g", "x", "u", "m":
				ls = append(ls, it.Label)
			}
		}
		sort.Strings(ls)
		parts = append(parts, "completion:"+strings.Join(uniq(ls), ","))
	}
	return strings.Join(parts, " | ")
}

func c08FreshView(st c08State) (*c08Fresh, error) {
	var open []string
	for f := range c08Files {
		if st.buf[f] >= 0 && !st.unsaved(f) {
			open = append(open, c08Files[f])
		}
	}
	key := fmt.Sprint(c08CurLayout, st.disk, open)
	if v, ok := c08FreshCache[key]; ok {
		return v, nil
	}
	files := c08DiskFiles(st)
	root := drv.NewWorkspace(files)
	defer drv.RemoveWorkspace(root)
	s, err := drv.Start(root, drv.Options{InitOptions: drv.AllChecks()})
	if err != nil {
		return nil, err
	}
	defer s.Close()
	fv := &c08Fresh{diags: map[string][]drv.Diag{}, defs: map[string]string{}}
	for k, v := range s.Diags {
		fv.diags[k] = v
	}
	for _, rel := range open {
		s.Open(rel, files[rel])
		fv.defs[rel] = c08Definitions(s, rel)
	}
	// opening saved files must not change the picture either
	for k := range fv.diags {
		if diagKeys(fv.diags[k], false) != diagKeys(s.Diags[k], false) {
			fv.diags[k] = s.Diags[k]
		}
	}
	c08FreshCache[key] = fv
	return fv, nil
}

func diagKeys(ds []drv.Diag, dropSyntax bool) string {
	var ks []string
	for _, d := range ds {
		if dropSyntax && d.Type == 1 {
			continue
		}
		ks = append(ks, d.Key())
	}
	sort.Strings(ks)
	return strings.Join(ks, " ; ")
}

func wholeDocRange(text string) drv.Range {
	ls := textref.Lines(text)
	last := ls[len(ls)-1]
	return drv.Range{Start: drv.Pos{}, End: drv.Pos{Line: len(ls) - 1, Character: textref.Units(text[last.Start:last.End])}}
}

// c08Apply performs the event on the real server / disk the way a VS Code client does.
func c08Apply(s *drv.Server, st c08State, e c08Event) error {
	rel := c08Files[e.file]
	path := filepath.Join(s.Root, rel)
	switch e.kind {
	case "open":
		return s.Open(rel, c08Variants[st.disk[e.file]].text)
	case "change":
		cur := c08Variants[st.buf[e.file]].text
		return s.ChangeInc(rel, []drv.Edit{{Range: wholeDocRange(cur), Text: c08Variants[e.v].text}})
	case "save":
		txt := c08Variants[st.buf[e.file]].text
		os.WriteFile(path, []byte(txt), 0o644)
		if err := s.Save(rel, txt); err != nil {
			return err
		}
		return s.Watched([]drv.FileEvent{{Rel: rel, Type: 2}})
	case "save-unwatched":
		// a client that has no file watcher registered for the workspace only sends didSave
		txt := c08Variants[st.buf[e.file]].text
		os.WriteFile(path, []byte(txt), 0o644)
		return s.Save(rel, txt)
	case "close":
		return s.CloseDoc(rel)
	case "create":
		os.MkdirAll(filepath.Dir(path), 0o755)
		os.WriteFile(path, []byte(c08Variants[e.v].text), 0o644)
		return s.Watched([]drv.FileEvent{{Rel: rel, Type: 1}})
	case "delete":
		os.Remove(path)
		return s.Watched([]drv.FileEvent{{Rel: rel, Type: 3}})
	case "extchange":
		os.WriteFile(path, []byte(c08Variants[e.v].text), 0o644)
		return s.Watched([]drv.FileEvent{{Rel: rel, Type: 2}})
	case "replace":
		// the file is replaced on disk (git checkout, a safe-write editor): the watcher reports Deleted and Created
		// for the same file in ONE notification
		os.Remove(path)
		os.WriteFile(path, []byte(c08Variants[e.v].text), 0o644)
		return s.Watched([]drv.FileEvent{{Rel: rel, Type: 3}, {Rel: rel, Type: 1}})
	}
	return nil
}

// c08Check evaluates the invariant in the current state; returns "" or a discrepancy description.
func c08Check(s *drv.Server, st c08State) (string, string) {
	fv, err := c08FreshView(st)
	if err != nil {
		return "fresh-server-start-failed", err.Error()
	}
	for f, rel := range c08Files {
		got := s.Diags[rel]
		if st.touched[f] && !st.unsaved(f) {
			continue
		}
		if st.unsaved(f) {
			// the buffer's syntax errors if it has any, else the saved non-syntax diagnostics
			bufHasSyntaxErr := c08Variants[st.buf[f]].name == "syntax-error"
			if bufHasSyntaxErr {
				only1 := len(got) > 0
				for _, d := range got {
					if d.Type != 1 {
						only1 = false
					}
				}
				if !only1 {
					return "unsaved-buffer-with-syntax-error-shows:" + typesOf(got), fmt.Sprintf("%s: expected only the buffer's syntax errors, client holds [%s]", rel, diagKeys(got, false))
				}
			} else {
				want := diagKeys(fv.diags[rel], true)
				if g := diagKeys(got, false); g != want {
					return "unsaved-clean-buffer-shows:" + typesOf(got) + ":saved-has:" + typesOf(fv.diags[rel]), fmt.Sprintf("%s: expected saved non-syntax diagnostics [%s], client holds [%s]", rel, want, g)
				}
			}
			continue
		}
		want := diagKeys(fv.diags[rel], false)
		if g := diagKeys(got, false); g != want {
			return "stale-diagnostics:client-has:" + typesOf(got) + ":fresh-has:" + typesOf(fv.diags[rel]), fmt.Sprintf("%s: fresh server [%s], client holds [%s]", rel, want, g)
		}
		// answers to queries are only promised while NO document has unsaved edits (they may legitimately see another
		// document's unsaved buffer)
		anyDirty := false
		for k := range c08Files {
			if st.unsaved(k) || st.touched[k] {
				anyDirty = true
			}
		}
		if st.buf[f] >= 0 && !anyDirty {
			if g := c08Definitions(s, rel); g != fv.defs[rel] {
				return "definition-or-completion-differs-from-fresh-server", fmt.Sprintf("%s: fresh server [%s], history server [%s]", rel, fv.defs[rel], g)
			}
		}
	}
	// no diagnostics for files outside the two
	for k := range s.Diags {
		if _, isExtra := c08Extra[k]; k != c08Files[0] && k != c08Files[1] && !isExtra {
			return "diagnostics-for-unknown-file", k
		}
	}
	return "", ""
}

func typesOf(ds []drv.Diag) string {
	m := map[int]bool{}
	for _, d := range ds {
		m[d.Type] = true
	}
	var ts []int
	for t := range m {
		ts = append(ts, t)
	}
	sort.Ints(ts)
	return strings.Trim(strings.Join(strings.Fields(fmt.Sprint(ts)), ","), "[]")
}

type c08Init struct {
	name string
	st   c08State
	// pre: events applied before the enumerated history (start from a non-initial state, e.g. a document already open)
	pre []c08Event
	// alpha: restricted event alphabet (nil = the full one)
	alpha []c08Event
}

func c08Space(lay c08Layout, init c08Init, depth, nvar int) *core.Space {
	alpha := c08Alphabet(nvar)
	if init.alpha != nil {
		alpha = init.alpha
	}
	K := int64(len(alpha))
	n := int64(1)
	for i := 0; i < depth; i++ {
		n *= K
	}
	name := fmt.Sprintf("histories-depth%d-from-%s", depth, init.name)
	if lay.name != "flat" {
		name += "-" + lay.name + "-module"
	}
	decode := func(i int64) []c08Event {
		evs := make([]c08Event, depth)
		for k := depth - 1; k >= 0; k-- {
			evs[k] = alpha[i%K]
			i /= K
		}
		return append(append([]c08Event{}, init.pre...), evs...)
	}
	return &core.Space{
		Name: name, N: n, Chunk: 2000, RecycleEvery: 40,
		Describe: func(i int64) interface{} {
			c08Use(lay)
			var hs []string
			for _, e := range decode(i) {
				hs = append(hs, e.String())
			}
			return map[string]interface{}{"initial_disk": c08DiskFiles(init.st), "history": hs}
		},
		Run: func(i int64, r *core.Result) {
			c08Use(lay)
			evs := decode(i)
			// enabledness under the reference client model (no server needed)
			st := init.st
			for _, e := range evs {
				var ok bool
				st, ok = st.step(e)
				if !ok {
					r.Count("sequences_not_producible_by_a_conformant_client", 1)
					return
				}
			}
			r.Evaluated++
			r.Nontrivial++
			// the fresh-server views of every state of this history are computed BEFORE the history server exists: the
			// server keeps part of its state in package-level variables, so two live servers in one process disturb each other
			{
				st := init.st
				c08FreshView(st)
				for _, e := range evs {
					st, _ = st.step(e)
					c08FreshView(st)
				}
			}
			root := drv.NewWorkspace(c08DiskFiles(init.st))
			defer drv.RemoveWorkspace(root)
			s, err := drv.Start(root, drv.Options{InitOptions: drv.AllChecks()})
			if err != nil {
				r.Fail(name, i, "server-start-failed", fmt.Sprint(evs), map[string]interface{}{"error": err.Error()})
				return
			}
			defer s.Close()
			st = init.st
			var hs []string
			for k, e := range evs {
				hs = append(hs, e.String())
				if err := c08Apply(s, st, e); err != nil {
					r.Fail(name, i, "transport-error", strings.Join(hs, " "), map[string]interface{}{"error": err.Error(), "history": hs})
					return
				}
				st, _ = st.step(e)
				r.Transitions++
				sig, what := c08Check(s, st)
				if sig == "" {
					continue
				}
				if k < len(evs)-1 {
					// this prefix is itself an enumerated history and is reported there
					r.Count("prefix_already_failing", 1)
					return
				}
				r.Outcome(sig)
				coreS := fmt.Sprintf("%s | from %s | %s", sig, init.name, strings.Join(hs, " "))
				if lay.name != "flat" {
					coreS += " | " + lay.name
				}
				r.Fail(name, i, sig+":after-"+e.kind, coreS, map[string]interface{}{"failure_core": coreS, "initial_disk": c08DiskFiles(init.st), "history": hs,
					"disk_now": c08DiskFiles(st), "discrepancy": what, "client_view": s.DiagView()})
				return
			}
			r.States++
			r.Outcome("equal-to-fresh-start")
			if i%20011 == 0 {
				r.Sample(map[string]interface{}{"initial": init.name, "history": hs, "client_view": s.DiagView()})
			}
		},
	}
}

func init() {
	core.Register(&core.Check{
		ID:        "C08",
		Technique: "explicit-state exploration of event histories: every sequence of client/file events up to the depth bound that a conformant client can produce (reference client model), replayed on a fresh real server; invariant evaluated after every event against a freshly started server on the same disk (differential oracle)",
		Rule: "alphabet: open/change/save (with and without a watched-files event)/close/create/delete/external-change on files a.lua, b.lua (also sub/b.lua required as sub.b, pkg/init.lua required as pkg) with content variants {clean, syntax error, unused local, defines g, reads g, requires b}; three initial workspaces; " +
			"invariant: files without unsaved edits show exactly the fresh server's diagnostics (and the same definition answers at three positions and the same completion candidates at two), a file with an unsaved buffer shows only that buffer's syntax errors if it has any, else the saved non-syntax diagnostics. " +
			"states = histories whose every state satisfied the invariant; transitions = events executed; non-trivial = sequences producible by the client model (the others are skipped without a server)",
		Assumptions: []string{
			"client conventions of DESIGN.md Appendix D: save = write file + didSave(text) + watched 'changed'; external edits/creates/deletes only for files that are not open; didChange replaces the whole document by one incremental edit",
			"the oracle is the implementation itself started from the initial state on the same disk content (cached per disk state)",
		},
		Flavour: "prod+overlay", QuickBudgetS: 200, ThoroughBudgetS: 1800,
		Spaces: func(tier string) []*core.Space {
			inits := []c08Init{
				{name: "a-clean", st: c08State{disk: [2]int{0, -1}, buf: [2]int{-1, -1}}},
				{name: "a-requires-b,b-defines-g", st: c08State{disk: [2]int{5, 3}, buf: [2]int{-1, -1}}},
				{name: "a-reads-g,b-syntax-error", st: c08State{disk: [2]int{4, 1}, buf: [2]int{-1, -1}}},
			}
			var sp []*core.Space
			flat := c08Layouts[0]
			// edit/save cycles on one open document: deeper histories over a five-event alphabet
			cyc := c08Init{name: "b-open(syntax-error-on-disk)-edit-save-cycles", st: c08State{disk: [2]int{4, 1}, buf: [2]int{-1, -1}},
				pre:   []c08Event{{"open", 1, 0}},
				alpha: []c08Event{{"change", 1, 0}, {"change", 1, 1}, {"change", 1, 2}, {"change", 1, 6}, {"change", 1, 7}, {"save", 1, 0}, {"save-unwatched", 1, 0}}}
			// a.lua (reads g) is open from the start, b.lua defines g: edits of b that are discarded by a close, deletions and
			// re-creations of b are judged through the queries asked in a.lua
			aopen := c08Init{name: "a-open-reads-g,b-defines-g", st: c08State{disk: [2]int{4, 3}, buf: [2]int{-1, -1}}, pre: []c08Event{{"open", 0, 0}}}
			if tier == "thorough" {
				sp = append(sp, c08Space(flat, aopen, 3, 6), c08Space(flat, aopen, 4, 6))
			} else {
				sp = append(sp, c08Space(flat, aopen, 2, 6), c08Space(flat, aopen, 3, 6))
			}
			// a file replaced on disk: Deleted + Created for the same file in one watched-files notification
			rep := c08Init{name: "a-open-reads-g,b-defines-g(replaced-files)", st: c08State{disk: [2]int{4, 3}, buf: [2]int{-1, -1}}, pre: []c08Event{{"open", 0, 0}},
				alpha: []c08Event{{"replace", 1, 0}, {"replace", 1, 3}, {"replace", 1, 2}, {"extchange", 1, 0}, {"extchange", 1, 3}, {"delete", 1, 0}, {"create", 1, 3}, {"open", 1, 0}, {"close", 1, 0}}}
			for d := 1; d <= 3; d++ {
				sp = append(sp, c08Space(flat, rep, d, 3))
			}
			// a diagnostic whose text changes while its type and range stay (print(g) <-> print(h)), by edits and by events
			msg := c08Init{name: "a-reads-g(message-only-changes)", st: c08State{disk: [2]int{4, -1}, buf: [2]int{-1, -1}},
				alpha: []c08Event{{"extchange", 0, 4}, {"extchange", 0, 8}, {"open", 0, 0}, {"close", 0, 0}, {"change", 0, 4}, {"change", 0, 8}, {"save", 0, 0}, {"save-unwatched", 0, 0}}}
			for d := 1; d <= 4; d++ {
				sp = append(sp, c08Space(flat, msg, d, 3))
			}
			cd := 6
			if tier == "thorough" {
				cd = 7
			}
			for d := 4; d <= cd; d++ {
				sp = append(sp, c08Space(flat, cyc, d, 3))
			}
			if tier == "thorough" {
				for _, in := range inits {
					sp = append(sp, c08Space(flat, in, 1, 6), c08Space(flat, in, 2, 6), c08Space(flat, in, 3, 6), c08Space(flat, in, 4, 6))
				}
				sp = append(sp, c08Space(flat, inits[1], 5, 3))
				for _, lay := range c08Layouts[1:] {
					sp = append(sp, c08Space(lay, inits[1], 3, 6), c08Space(lay, inits[1], 4, 6))
				}
			} else {
				for _, in := range inits {
					sp = append(sp, c08Space(flat, in, 1, 6), c08Space(flat, in, 2, 6), c08Space(flat, in, 3, 6))
				}
				sp = append(sp, c08Space(flat, inits[1], 4, 3), c08Space(flat, inits[2], 4, 3))
				for _, lay := range c08Layouts[1:] {
					sp = append(sp, c08Space(lay, inits[1], 2, 6), c08Space(lay, inits[1], 3, 6))
				}
			}
			return sp
		},
	})
}

// C08Debug replays one history given as words (`vcheck c08 <layout> <init-index> open:1 change:1:0 save-unwatched:1 ...`,
// event:file[:variant]) and prints the client's view and the verdict after every event. Maintainer tool.
func C08Debug(args []string) {
	if args[0] == "warm" {
		// an unrelated server is started and closed first in this process
		files := map[string]string{"z.lua": "local z = 1\nprint(z)\n"}
		if os.Getenv("WARM_G") != "" {
			files = map[string]string{"a.lua": "print(g)\n", "b.lua": "g = 1\n"}
		}
		root := drv.NewWorkspace(files)
		if s, err := drv.Start(root, drv.Options{InitOptions: drv.AllChecks()}); err == nil {
			if os.Getenv("WARM_G") == "2" {
				s.Open("a.lua", files["a.lua"])
				s.Definition("a.lua", 0, 6)
			}
			s.Close()
		}
		drv.RemoveWorkspace(root)
		C08Debug(args[1:])
		return
	}
	if args[0] == "twice" {
		// the same history twice in one process: the verdicts must agree (process-global state must not leak)
		C08Debug(args[1:])
		C08Debug(args[1:])
		return
	}
	lay := c08Layouts[0]
	for _, l := range c08Layouts {
		if l.name == args[0] {
			lay = l
		}
	}
	c08Use(lay)
	inits := []c08State{
		{disk: [2]int{0, -1}, buf: [2]int{-1, -1}},
		{disk: [2]int{5, 3}, buf: [2]int{-1, -1}},
		{disk: [2]int{4, 1}, buf: [2]int{-1, -1}},
	}
	var ii int
	fmt.Sscan(args[1], &ii)
	st := inits[ii]
	{
		pst := st
		c08FreshView(pst)
		for _, w := range args[2:] {
			p := strings.Split(w, ":")
			e := c08Event{kind: p[0]}
			fmt.Sscan(p[1], &e.file)
			if len(p) > 2 {
				fmt.Sscan(p[2], &e.v)
			}
			if n, ok := pst.step(e); ok {
				pst = n
				c08FreshView(pst)
			}
		}
	}
	root := drv.NewWorkspace(c08DiskFiles(st))
	defer drv.RemoveWorkspace(root)
	s, err := drv.Start(root, drv.Options{InitOptions: drv.AllChecks()})
	if err != nil {
		fmt.Println("start:", err)
		return
	}
	defer s.Close()
	fmt.Printf("initial: %s\n", strings.ReplaceAll(s.DiagView(), "\n", " // "))
	for _, w := range args[2:] {
		p := strings.Split(w, ":")
		e := c08Event{kind: p[0]}
		fmt.Sscan(p[1], &e.file)
		if len(p) > 2 {
			fmt.Sscan(p[2], &e.v)
		}
		n, ok := st.step(e)
		if !ok {
			fmt.Println(e.String(), ": not producible by the client model in state", st.key())
			return
		}
		if err := c08Apply(s, st, e); err != nil {
			fmt.Println(e.String(), ": transport error", err)
			return
		}
		st = n
		sig, what := c08Check(s, st)
		fmt.Printf("%-40s client: %s\n    verdict: %s %s\n", e.String(), strings.ReplaceAll(s.DiagView(), "\n", " // "), sig, what)
	}
}
