package checks

import (
	"fmt"

	"verif/internal/core"
	"verif/internal/drv"
)

// C06: find-references returns exactly the occurrences of the same variable.

func c06Space(d scopeSpaceDef) *core.Space {
	return &core.Space{
		Name: d.name, N: d.count(), Chunk: 300, RecycleEvery: 30,
		Describe: func(i int64) interface{} { return caseDesc(d.at(i)) },
		Run: func(i int64, r *core.Result) {
			c := d.at(i)
			r.Evaluated++
			if c.Bind == nil {
				r.Fail(d.name, i, "generator-program-not-valid", c.Text, caseDesc(c))
				return
			}
			s, root, err := c.start(nil)
			if err != nil {
				r.Fail(d.name, i, "server-start-failed", c.Text, map[string]interface{}{"error": err.Error(), "case": caseDesc(c)})
				return
			}
			defer drv.RemoveWorkspace(root)
			defer s.Close()
			r.Transitions += 3
			// non-trivial: some name has occurrences bound to two different variables
			byName := map[string]map[int]bool{}
			for _, o := range c.Bind.Occs {
				if byName[o.Name] == nil {
					byName[o.Name] = map[int]bool{}
				}
				byName[o.Name][o.Decl] = true
			}
			for _, m := range byName {
				if len(m) > 1 {
					r.Nontrivial++
					break
				}
			}
			if i%997 == 0 {
				r.Sample(map[string]interface{}{"m.lua": c.Text, "occurrences": len(c.Bind.Occs)})
			}
			for _, o := range c.Bind.Occs {
				var want []fileRange
				if o.Decl >= 0 {
					want = c.localOccs(o.Decl)
				} else {
					want = c.globalOccs(o.Name)
				}
				if o.Decl < 0 && len(c.globalDefs(o.Name)) == 0 {
					// a name that no file ever assigns: whether it is "a global variable" with references is not fixed by the statement
					r.Count("dont_care_never_defined_global", 1)
					continue
				}
				or := rng(c.Text, o.Span)
				locs, err := s.References("m.lua", or.Start.Line, or.Start.Character)
				r.Transitions++
				r.States++
				if err != nil {
					r.Fail(d.name, i, "references-request-error", c.Text+fmt.Sprint(or), map[string]interface{}{"error": err.Error(), "case": caseDesc(c)})
					continue
				}
				got := locsToFR(s, locs)
				ws, gs := frSet(want), frSet(got)
				if ws == gs {
					r.Outcome("agree:" + declKind(c, o.Decl))
					continue
				}
				// classify: missing / extra elements
				wm := map[string]bool{}
				for _, w := range want {
					wm[w.String()] = true
				}
				gm := map[string]bool{}
				for _, g := range got {
					gm[g.String()] = true
				}
				missing, extra := 0, 0
				missDecl, missSelf := false, false
				for k := range wm {
					if !gm[k] {
						missing++
						if o.Decl >= 0 && k == (fileRange{"m.lua", rng(c.Text, c.Bind.Decls[o.Decl].Span)}).String() {
							missDecl = true
						}
						if k == (fileRange{"m.lua", or}).String() {
							missSelf = true
						}
					}
				}
				for k := range gm {
					if !wm[k] {
						extra++
					}
				}
				kind := ""
				switch {
				case len(got) == 0:
					kind = "no-answer"
				case missing > 0 && extra > 0:
					kind = "other-variable-mixed-in-and-occurrences-missing"
				case extra > 0:
					kind = "occurrences-of-another-variable-included"
				default:
					kind = "occurrences-missing"
					if missDecl && missing == 1 {
						kind = "declaration-missing"
					} else if missSelf && missing == 1 {
						kind = "queried-occurrence-missing"
					}
				}
				sig := fmt.Sprintf("%s:query-on-%s:bound-to-%s:in-%s", kind, o.Kind, declKind(c, o.Decl), lastSeg(c.occContext(o)))
				r.Outcome(sig)
				var miss, ext []fileRange
				for _, w := range want {
					if !gm[w.String()] {
						miss = append(miss, w)
					}
				}
				for _, g := range got {
					if !wm[g.String()] {
						ext = append(ext, g)
					}
				}
				core := fmt.Sprintf("query %s | missing %s | extra %s", lineAt(c.Text, or), c.frLines(miss), c.frLines(ext))
				r.Fail(d.name, i, sig, core, map[string]interface{}{"failure_core": core,
					"case": caseDesc(c), "position": fmt.Sprintf("%d:%d", or.Start.Line, or.Start.Character), "identifier": o.Name,
					"expected": ws, "server": gs, "context": c.occContext(o)})
			}
		},
	}
}

func init() {
	core.Register(&core.Check{
		ID:        "C06",
		Technique: "bounded-exhaustive program enumeration (every program of the statement alphabets up to the node bound, every name occurrence as query) on the real server, against the occurrence classes of an independent reference binder",
		Rule: "programs as in C05 (forms / structure / core alphabets over names {a,b}, second file defining global b); query: textDocument/references (declaration included) at the start of every name occurrence; " +
			"oracle: set of (file, range) of all occurrences bound to the same declaration (locals) or of all unbound occurrences of the name in all files (globals); compared as sets. " +
			"states = (program, occurrence) pairs judged; non-trivial = programs in which one name denotes two different variables",
		Assumptions: []string{
			"reference binder implements Lua 5.4 manual §3.5; field names and table keys are not variable occurrences",
			"order and duplicates of the returned locations are ignored; ReferenceMaxNum (3000) is far above the sizes used",
		},
		Flavour:      "prod+overlay",
		QuickBudgetS: 420, ThoroughBudgetS: 3600,
		Spaces: func(tier string) []*core.Space {
			var sp []*core.Space
			for _, d := range scopeSpaces(tier) {
				sp = append(sp, c06Space(d))
			}
			sp = append(sp, c06PoolSpace(tier))
			return sp
		},
	})
}
