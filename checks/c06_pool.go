package checks

import (
	"fmt"
	"strings"

	"luahelper-lsp/langserver/vrt"

	"verif/internal/core"
	"verif/internal/drv"
)

// Workspace-wide reference search with more files than pool workers: the per-file searches are handed to a pool of
// NumCPU+2 goroutines, so a worker serves several files only when the workspace is larger than the pool. The processor
// count is pinned to 1 and 2 (pools of 3 and 4) and every subset of 1..n-1 use files contains the read.

type c06PoolCase struct {
	n, mask, cpu int
	// samePos: the use in f1.lua sits at the very line and column of the definition in f0.lua
	samePos bool
}

func c06PoolCases(tier string) []c06PoolCase {
	maxN := 6
	if tier == "thorough" {
		maxN = 9
	}
	var out []c06PoolCase
	for n := 2; n <= maxN; n++ {
		for mask := 0; mask < 1<<uint(n-1); mask++ {
			for _, cpu := range []int{1, 2} {
				out = append(out, c06PoolCase{n, mask, cpu, false})
				if mask&1 != 0 && n <= 3 {
					out = append(out, c06PoolCase{n, mask, cpu, true})
				}
			}
		}
	}
	return out
}

func (c c06PoolCase) files() (map[string]string, []fileRange) {
	files := map[string]string{"f0.lua": "gq = 1\nprint(gq)\n"}
	occ := []fileRange{
		{"f0.lua", drv.Range{Start: drv.Pos{Line: 0, Character: 0}, End: drv.Pos{Line: 0, Character: 2}}},
		{"f0.lua", drv.Range{Start: drv.Pos{Line: 1, Character: 6}, End: drv.Pos{Line: 1, Character: 8}}},
	}
	for i := 1; i < c.n; i++ {
		name := fmt.Sprintf("f%d.lua", i)
		if i == 1 && c.samePos && c.mask&1 != 0 {
			files[name] = "gq()\n"
			occ = append(occ, fileRange{name, drv.Range{Start: drv.Pos{Line: 0, Character: 0}, End: drv.Pos{Line: 0, Character: 2}}})
		} else if c.mask&(1<<uint(i-1)) != 0 {
			files[name] = strings.Repeat("\n", i+1) + "print(gq)\n"
			occ = append(occ, fileRange{name, drv.Range{Start: drv.Pos{Line: i + 1, Character: 6}, End: drv.Pos{Line: i + 1, Character: 8}}})
		} else {
			files[name] = strings.Repeat("\n", i+1) + "print(1)\n"
		}
	}
	return files, occ
}

func c06PoolSpace(tier string) *core.Space {
	cases := c06PoolCases(tier)
	name := "worker-pool-smaller-than-workspace"
	desc := func(i int64) interface{} {
		c := cases[i]
		f, _ := c.files()
		return map[string]interface{}{"files": f, "processors": c.cpu}
	}
	return &core.Space{
		Name: name, N: int64(len(cases)), Chunk: 40, RecycleEvery: 20, PerCaseTimeoutS: 60, Describe: desc,
		Run: func(i int64, r *core.Result) {
			c := cases[i]
			files, occ := c.files()
			r.Evaluated++
			if c.n > c.cpu+2 {
				r.Nontrivial++
			}
			vrt.SetNumCPU(c.cpu)
			defer vrt.SetNumCPU(0)
			root := drv.NewWorkspace(files)
			defer drv.RemoveWorkspace(root)
			s, err := drv.Start(root, drv.Options{InitOptions: drv.AllChecks()})
			if err != nil {
				r.Fail(name, i, "server-start-failed", fmt.Sprint(c), map[string]interface{}{"error": err.Error()})
				return
			}
			defer s.Close()
			for i := 0; i < c.n; i++ {
				// a client only queries documents it has opened
				f := fmt.Sprintf("f%d.lua", i)
				s.Open(f, files[f])
			}
			want := frSet(occ)
			for _, q := range occ {
				locs, err := s.References(q.File, q.Range.Start.Line, q.Range.Start.Character)
				r.Transitions++
				if err != nil {
					continue
				}
				r.States++
				got := frSet(locsToFR(s, locs))
				if got != want {
					sig := "global-references-across-many-files-not-exact"
					coreS := fmt.Sprintf("%s | files=%d uses=%b processors=%d", sig, c.n, c.mask, c.cpu)
					if c.samePos {
						sig += ":use-at-the-position-of-the-definition-in-another-file"
						coreS = fmt.Sprintf("%s | files=%d uses=%b processors=%d", sig, c.n, c.mask, c.cpu)
					}
					r.Outcome(sig)
					r.Fail(name, i, sig, coreS, map[string]interface{}{"case": desc(i), "query": q.String(), "expected": want, "answer": got, "failure_core": coreS})
					return
				}
			}
			r.Outcome("exact")
		},
	}
}
