package checks

import (
	"encoding/json"
	"fmt"
	"os"
	"path/filepath"
	"regexp"
	"sort"
	"strings"

	"luahelper-lsp/langserver/check/common"

	"verif/internal/core"
	"verif/internal/drv"
)

// C17: each configuration switch silences exactly the diagnostics it names.

var c17Files = map[string]string{
	"main.lua": strings.Join([]string{
		"print(undefinedvar)",
		"print(laterglobal)",
		"laterglobal = 1",
		"local unusedlocal = 1",
		"local tt = {k = 1, k = 2}",
		"local m = require(\"nofile\")",
		"local p1, p2 = 1, 2",
		"p1 = 1, 2",
		"local q1 = 1, 2",
		"local function dupp(a, a) return a end",
		"local c14 = p1 == p1",
		"local c15 = p1 or true",
		"local c16 = p1 and false",
		"if p1 then elseif p1 then end",
		"p2 = p2",
		"local c21 = p1 == 1.5",
		"local function two(x, y) return x, y end",
		"two(1, 2, 3)",
		"local w17 = 1",
		"w17 = 2",
		"print(tt, m, q1, dupp, c14, c15, c16, c21, p2)",
		"do goto nolabel end",
		""}, "\n"),
	"syn.lua":       "local x = = 1\n",
	"sub/other.lua": "print(undefinedsub)\nlocal unusedsub = 1\n",
	"ann.lua":       "---@type\nlocal annv = 1\nprint(annv)\n---@class\nlocal annc = {}\nprint(annc)\n",
	// one class declared in two files, one of them under the folder the ignore rules name: the duplicate-type diagnostic
	// of each file depends on the other file being analysed, not on the other file's diagnostics being shown
	"dup.lua":      "---@class DupC\nlocal dupc1 = {}\nprint(dupc1)\n",
	"sub/dupa.lua": "---@class DupC\nlocal dupc2 = {}\nprint(dupc2)\n",
}

// c17DupPartner: the file whose analysis a duplicate-type diagnostic of the given file depends on
var c17DupPartner = map[string]string{"dup.lua": "sub/dupa.lua", "sub/dupa.lua": "dup.lua"}

type c17Diag struct {
	File string
	drv.Diag
}

func c17View(s *drv.Server) []c17Diag {
	var out []c17Diag
	for f, ds := range s.Diags {
		for _, d := range ds {
			out = append(out, c17Diag{f, d})
		}
	}
	sort.Slice(out, func(i, j int) bool {
		if out[i].File != out[j].File {
			return out[i].File < out[j].File
		}
		return out[i].Key() < out[j].Key()
	})
	return out
}

func c17Keys(ds []c17Diag) string {
	var ks []string
	for _, d := range ds {
		ks = append(ks, d.File+":"+d.Key())
	}
	sort.Strings(ks)
	return strings.Join(ks, "\n")
}

// flag vector: index 0 = AllEnable, index i = the flag of diagnostic type i
func c17FlagOpts(flags []bool) map[string]interface{} {
	m := map[string]interface{}{"client": "vsc", "AllEnable": flags[0]}
	for i, f := range drv.CheckFlags {
		m[f] = flags[i+1]
	}
	return m
}

func c17Settings(flags []bool) map[string]interface{} {
	w := map[string]interface{}{"AllEnable": flags[0]}
	for i, f := range drv.CheckFlags {
		w[f] = flags[i+1]
	}
	return map[string]interface{}{"settings": map[string]interface{}{"luahelper": map[string]interface{}{"Warn": w, "base": map[string]interface{}{}}}}
}

func c17Filter(base []c17Diag, keep func(d c17Diag) bool) []c17Diag {
	var out []c17Diag
	for _, d := range base {
		if keep(d) {
			out = append(out, d)
		}
	}
	return out
}

var c17Base []c17Diag

func c17Baseline() ([]c17Diag, error) {
	if c17Base != nil {
		return c17Base, nil
	}
	all := make([]bool, 26)
	for i := range all {
		all[i] = true
	}
	root := drv.NewWorkspace(c17Files)
	defer drv.RemoveWorkspace(root)
	s, err := drv.Start(root, drv.Options{InitOptions: c17FlagOpts(all)})
	if err != nil {
		return nil, err
	}
	defer s.Close()
	c17Base = c17View(s)
	return c17Base, nil
}

// run one configuration through one channel and return the client's view (nil, err if the server refused to start)
func c17Run(channel string, flags []bool, jsonCfg map[string]interface{}) ([]c17Diag, error) {
	files := map[string]string{}
	for k, v := range c17Files {
		files[k] = v
	}
	all := make([]bool, 26)
	for i := range all {
		all[i] = true
	}
	noneButMaster := make([]bool, 26)
	noneButMaster[0] = true
	var opts map[string]interface{}
	switch channel {
	case "initializationOptions":
		opts = c17FlagOpts(flags)
	case "didChangeConfiguration":
		opts = c17FlagOpts(all)
	case "didChangeConfiguration-from-all-off":
		// every check is off at start-up and the configuration under test arrives as a later settings change
		opts = c17FlagOpts(noneButMaster)
	case "luahelper.json":
		b, _ := json.Marshal(jsonCfg)
		files["luahelper.json"] = string(b)
		opts = c17FlagOpts(all)
	}
	root := drv.NewWorkspace(files)
	defer drv.RemoveWorkspace(root)
	s, err := drv.Start(root, drv.Options{InitOptions: opts})
	if err != nil {
		return nil, err
	}
	defer s.Close()
	if channel == "didChangeConfiguration-from-all-off" {
		if err := s.Notify("workspace/didChangeConfiguration", c17Settings(noneButMaster)); err != nil {
			return nil, err
		}
		if err := s.Notify("workspace/didChangeConfiguration", c17Settings(flags)); err != nil {
			return nil, err
		}
	}
	if channel == "didChangeConfiguration" {
		// the client's automatic first synchronisation is ignored by design; the second one is "a later settings change"
		if err := s.Notify("workspace/didChangeConfiguration", c17Settings(all)); err != nil {
			return nil, err
		}
		if err := s.Notify("workspace/didChangeConfiguration", c17Settings(flags)); err != nil {
			return nil, err
		}
	}
	return c17View(s), nil
}

type c17Cfg struct {
	desc  string
	flags []bool
}

func c17FlagConfigs(tier string) []c17Cfg {
	mk := func(def bool) []bool {
		f := make([]bool, 26)
		for i := range f {
			f[i] = def
		}
		f[0] = true
		return f
	}
	var out []c17Cfg
	out = append(out, c17Cfg{"all-on", mk(true)})
	off := mk(true)
	off[0] = false
	out = append(out, c17Cfg{"master-switch-off", off})
	out = append(out, c17Cfg{"all-off-but-master", mk(false)})
	for i := 1; i <= 25; i++ {
		f := mk(true)
		f[i] = false
		out = append(out, c17Cfg{fmt.Sprintf("all-on-except-%s", drv.CheckFlags[i-1]), f})
		g := mk(false)
		g[i] = true
		out = append(out, c17Cfg{fmt.Sprintf("only-%s", drv.CheckFlags[i-1]), g})
	}
	for i := 1; i <= 25; i++ {
		for j := i + 1; j <= 25; j++ {
			if tier != "thorough" && (i*7+j)%5 != 0 {
				continue
			}
			f := mk(true)
			f[i], f[j] = false, false
			out = append(out, c17Cfg{fmt.Sprintf("all-on-except-%s,%s", drv.CheckFlags[i-1], drv.CheckFlags[j-1]), f})
			g := mk(false)
			g[i], g[j] = true, true
			out = append(out, c17Cfg{fmt.Sprintf("only-%s,%s", drv.CheckFlags[i-1], drv.CheckFlags[j-1]), g})
		}
	}
	// three flags off from all-on: every triple (thorough); every triple inside a window of 4 consecutive flags (quick)
	for i := 1; i <= 25; i++ {
		for j := i + 1; j <= 25; j++ {
			for k := j + 1; k <= 25; k++ {
				if tier != "thorough" && k-i > 3 {
					continue
				}
				f := mk(true)
				f[i], f[j], f[k] = false, false, false
				out = append(out, c17Cfg{fmt.Sprintf("all-on-except-%s,%s,%s", drv.CheckFlags[i-1], drv.CheckFlags[j-1], drv.CheckFlags[k-1]), f})
			}
		}
	}
	return out
}

func c17ServerSpace(tier string) *core.Space {
	cfgs := c17FlagConfigs(tier)
	chans := []string{"initializationOptions", "didChangeConfiguration", "luahelper.json", "didChangeConfiguration-from-all-off"}
	return &core.Space{
		Name: "flag-configurations-x-4-channels", N: int64(len(cfgs) * len(chans)), Chunk: 20, RecycleEvery: 40,
		Describe: func(i int64) interface{} {
			return map[string]interface{}{"configuration": cfgs[i/int64(len(chans))].desc, "channel": chans[i%int64(len(chans))]}
		},
		Run: func(i int64, r *core.Result) {
			cfg, ch := cfgs[i/int64(len(chans))], chans[i%int64(len(chans))]
			base, err := c17Baseline()
			r.Evaluated++
			if err != nil {
				r.Fail("flags", i, "baseline-server-start-failed", "", map[string]interface{}{"error": err.Error()})
				return
			}
			enabled := func(t int) bool { return cfg.flags[0] && t >= 1 && t <= 25 && cfg.flags[t] }
			want := c17Filter(base, func(d c17Diag) bool { return enabled(d.Type) })
			var jc map[string]interface{}
			if ch == "luahelper.json" {
				var ign []int
				for t := 1; t <= 29; t++ {
					if !enabled(t) {
						ign = append(ign, t)
					}
				}
				jc = map[string]interface{}{"ShowWarnFlag": 1, "IgnoreErrorTypes": ign}
				if !cfg.flags[0] {
					jc = map[string]interface{}{"ShowWarnFlag": 0}
				}
			}
			got, err := c17Run(ch, cfg.flags, jc)
			r.Transitions += 3
			r.States++
			if len(want) != len(base) {
				r.Nontrivial++
			}
			if err != nil {
				r.Fail("flags", i, "server-refused-valid-configuration:"+ch, cfg.desc+ch, map[string]interface{}{"error": err.Error(), "configuration": cfg.desc})
				return
			}
			if c17Keys(got) == c17Keys(want) {
				r.Outcome("equals-filtered-baseline")
				if i%97 == 0 {
					r.Sample(map[string]interface{}{"configuration": cfg.desc, "channel": ch, "diagnostics_shown": len(got), "baseline": len(base)})
				}
				return
			}
			// classify: which types differ
			diff := map[int]int{}
			gm := map[string]c17Diag{}
			for _, d := range got {
				gm[d.File+":"+d.Key()] = d
			}
			wm := map[string]c17Diag{}
			for _, d := range want {
				wm[d.File+":"+d.Key()] = d
			}
			for k, d := range gm {
				if _, ok := wm[k]; !ok {
					diff[d.Type]++
				}
			}
			for k, d := range wm {
				if _, ok := gm[k]; !ok {
					diff[-d.Type]++
				}
			}
			var ds []string
			for t, n := range diff {
				if t > 0 {
					ds = append(ds, fmt.Sprintf("extra-type%d(x%d)", t, n))
				} else {
					ds = append(ds, fmt.Sprintf("missing-type%d(x%d)", -t, n))
				}
			}
			sort.Strings(ds)
			sig := "configuration-not-a-filter-of-all-enabled:" + ch
			coreS := fmt.Sprintf("%s | %s | %s", sig, cfg.desc, strings.Join(ds, ","))
			r.Outcome(sig)
			r.Fail("flags", i, sig, coreS, map[string]interface{}{"failure_core": coreS, "configuration": cfg.desc, "channel": ch, "difference": ds, "expected": c17Keys(want), "shown": c17Keys(got)})
		},
	}
}

// pure layer: all 2^26 flag vectors through the real flag-to-ignore-map mapping
func c17PureSpace(bits int) *core.Space {
	n := int64(1) << uint(bits)
	return &core.Space{
		Name: fmt.Sprintf("flag-mapping-all-2^%d-vectors", bits), N: n, Chunk: 1 << 16,
		Describe: func(i int64) interface{} { return map[string]interface{}{"flag_vector_bits": fmt.Sprintf("%026b", i)} },
		Setup: func() {
			common.GlobalConfigDefautInit()
			common.GConfig.IntialGlobalVar()
		},
		Run: func(i int64, r *core.Result) {
			flags := make([]bool, 26)
			for b := 0; b < 26; b++ {
				if b < bits {
					flags[b] = i&(1<<uint(b)) != 0
				} else {
					flags[b] = true
				}
			}
			common.GConfig.ReadJSONFlag = false
			common.GConfig.HandleChangeCheckList(flags, nil, nil)
			r.Evaluated++
			r.States++
			r.Transitions++
			if i&0x1 == 1 && i != n-1 {
				r.Nontrivial++
			}
			for t := 1; t < 30; t++ {
				wantIgnored := !flags[0] || t > 25 || !flags[t]
				gotIgnored := common.GConfig.IsIgnoreErrorFile("/nowhere/x.lua", common.CheckErrorType(t))
				if wantIgnored != gotIgnored {
					sig := fmt.Sprintf("flag-mapping-wrong:type%d:ignored=%v", t, gotIgnored)
					r.Fail("flag-mapping", i, sig, sig, map[string]interface{}{"flags": fmt.Sprintf("%026b", i), "type": t, "ignored": gotIgnored, "expected_ignored": wantIgnored})
					return
				}
			}
			if i%9999991 == 0 {
				r.Sample(map[string]interface{}{"flags_bit0_is_AllEnable": fmt.Sprintf("%026b", i)})
			}
		},
	}
}

// ignore rules
type c17Rule struct {
	key     string // IgnoreFileErr | IgnoreFileOrFloder | IgnoreFileErrTypes
	pattern string
}

var c17Patterns = []string{"main.lua", "sub/", "mai.\\.lua", "zzznothing", "("}

func c17Match(pattern, rel string) bool {
	if strings.Contains(rel, pattern) {
		return true
	}
	re, err := regexp.Compile(pattern)
	return err == nil && re.MatchString(rel)
}

// c17RunRules delivers file ignore rules through the client's settings (initializationOptions or a later change).
func c17RunRules(channel string, ignoreAnalysis, ignoreErr []string) ([]c17Diag, error) {
	all := make([]bool, 26)
	for i := range all {
		all[i] = true
	}
	opts := c17FlagOpts(all)
	if channel == "initializationOptions" {
		opts["IgnoreFileOrDir"] = ignoreAnalysis
		opts["IgnoreFileOrDirError"] = ignoreErr
	}
	root := drv.NewWorkspace(c17Files)
	defer drv.RemoveWorkspace(root)
	s, err := drv.Start(root, drv.Options{InitOptions: opts})
	if err != nil {
		return nil, err
	}
	defer s.Close()
	if channel == "didChangeConfiguration" {
		st := c17Settings(all)
		if err := s.Notify("workspace/didChangeConfiguration", st); err != nil {
			return nil, err
		}
		st = c17Settings(all)
		st["settings"].(map[string]interface{})["luahelper"].(map[string]interface{})["base"] = map[string]interface{}{"IgnoreFileOrDir": ignoreAnalysis, "IgnoreFileOrDirError": ignoreErr}
		if err := s.Notify("workspace/didChangeConfiguration", st); err != nil {
			return nil, err
		}
		if err := s.Barrier(); err != nil {
			return nil, err
		}
	}
	before := c17View(s)
	// the rules must keep holding when the files change on disk afterwards: a comment is appended to every file
	// (no diagnostic moves) and reported through the file watcher
	var evs []drv.FileEvent
	for f, txt := range c17Files {
		if strings.HasSuffix(f, ".lua") {
			os.WriteFile(filepath.Join(root, f), []byte(txt+"-- touched\n"), 0o644)
			evs = append(evs, drv.FileEvent{Rel: f, Type: 2})
		}
	}
	sort.Slice(evs, func(i, j int) bool { return evs[i].Rel < evs[j].Rel })
	if err := s.Watched(evs); err != nil {
		return nil, err
	}
	after := c17View(s)
	if c17Keys(after) != c17Keys(before) {
		// report the view after the events, tagged so that the classification shows where it came from
		for k := range after {
			after[k].Msg = "[after the watched-files event] " + after[k].Msg
		}
		return after, nil
	}
	return before, nil
}

func c17RuleSpace() *core.Space {
	var sets [][]c17Rule
	var rules []c17Rule
	for _, k := range []string{"IgnoreFileErr", "IgnoreFileOrFloder", "IgnoreFileErrTypes"} {
		for _, p := range c17Patterns {
			rules = append(rules, c17Rule{k, p})
		}
	}
	for i := range rules {
		sets = append(sets, []c17Rule{rules[i]})
		for j := i + 1; j < len(rules); j++ {
			sets = append(sets, []c17Rule{rules[i], rules[j]})
		}
	}
	return &core.Space{
		Name: "ignore-rules-subsets<=2-x-channels", N: int64(len(sets)) * 3, Chunk: 10, RecycleEvery: 40,
		Describe: func(i int64) interface{} { return map[string]interface{}{"rules": fmt.Sprint(sets[i/3])} },
		Run: func(i int64, r *core.Result) {
			set := sets[i/3]
			base, err := c17Baseline()
			r.Evaluated++
			if err != nil {
				return
			}
			jc := map[string]interface{}{"ShowWarnFlag": 1}
			var fe, ff []string
			var ft []map[string]interface{}
			invalid := false
			for _, ru := range set {
				if ru.pattern == "(" {
					invalid = true
				}
				switch ru.key {
				case "IgnoreFileErr":
					fe = append(fe, ru.pattern)
				case "IgnoreFileOrFloder":
					ff = append(ff, ru.pattern)
				case "IgnoreFileErrTypes":
					ft = append(ft, map[string]interface{}{"File": ru.pattern, "Types": []int{4, 18}})
				}
			}
			if fe != nil {
				jc["IgnoreFileErr"] = fe
			}
			if ff != nil {
				jc["IgnoreFileOrFloder"] = ff
			}
			if ft != nil {
				jc["IgnoreFileErrTypes"] = ft
			}
			all := make([]bool, 26)
			for k := range all {
				all[k] = true
			}
			ch := []string{"luahelper.json", "initializationOptions", "didChangeConfiguration"}[i%3]
			if ft != nil {
				ch = "luahelper.json" // per-file type rules exist in luahelper.json only
			}
			var got []c17Diag
			if ch == "luahelper.json" {
				got, err = c17Run("luahelper.json", all, jc)
			} else {
				got, err = c17RunRules(ch, ff, fe)
			}
			r.Transitions += 2
			r.States++
			r.Nontrivial++
			desc := fmt.Sprint(set) + " via " + ch
			if err != nil {
				if invalid {
					r.Outcome("malformed-setting-rejected")
					return
				}
				r.Fail("rules", i, "server-refused-valid-configuration", desc, map[string]interface{}{"error": err.Error(), "rules": desc})
				return
			}
			want := c17Filter(base, func(d c17Diag) bool {
				// a duplicate-type diagnostic goes away with the analysis of the other declaring file (folder rule), and only then
				if p, ok := c17DupPartner[d.File]; ok && d.Type == 18 && strings.Contains(d.Msg, "DupC") {
					for _, ru := range set {
						if ru.key == "IgnoreFileOrFloder" && ru.pattern != "(" && c17Match(ru.pattern, p) {
							return false
						}
					}
				}
				for _, ru := range set {
					if ru.pattern == "(" {
						continue // an invalid pattern that was ignored matches nothing
					}
					if !c17Match(ru.pattern, d.File) {
						continue
					}
					switch ru.key {
					case "IgnoreFileErr", "IgnoreFileOrFloder":
						return false
					case "IgnoreFileErrTypes":
						if d.Type == 4 || d.Type == 18 {
							return false
						}
					}
				}
				return true
			})
			if c17Keys(got) == c17Keys(want) {
				r.Outcome("equals-filtered-baseline")
				if i%17 == 0 {
					r.Sample(map[string]interface{}{"rules": desc, "diagnostics_shown": len(got), "baseline": len(base)})
				}
				return
			}
			sig := "ignore-rules-not-a-filter-of-all-enabled"
			coreS := sig + " | " + desc
			r.Fail("rules", i, sig, coreS, map[string]interface{}{"failure_core": coreS, "rules": desc, "expected": c17Keys(want), "shown": c17Keys(got)})
		},
	}
}

func init() {
	core.Register(&core.Check{
		ID:        "C17",
		Technique: "exhaustive enumeration of configurations (all 2^26 flag vectors on the real flag mapping; all one/two-flag deviations x 3 delivery channels and all ignore-rule subsets <=2 on the real server) with a metamorphic oracle: diag(c) = filter_c(diag(all enabled))",
		Rule: "(a) every one of the 2^26 client flag vectors (quick: 2^20 with the remaining flags on) is pushed through GlobalConfig.HandleChangeCheckList and IsIgnoreErrorFile must ignore exactly the types whose flag is off; (b) all-on, master off, every single and (thorough: every) pair of flags off from all-on / on from all-off, each delivered by initializationOptions, a later didChangeConfiguration and luahelper.json, " +
			"must show exactly the all-enabled diagnostics of the fixed 6-file workspace whose type is enabled; (c) every subset of size <=2 of {IgnoreFileErr, IgnoreFileOrFloder, IgnoreFileErrTypes} x {literal file, folder, regex, regex matching nothing, invalid regex} must remove exactly the matching files' diagnostics (types 4 and 18 only for the per-file type rule; a class declared in two files, one of them under the ignored folder, keeps its duplicate-type diagnostic in the other file unless the folder is excluded from analysis); an invalid regex must be rejected or ignored. " +
			"states = configurations judged; non-trivial = configurations that exclude something. The check reports 'vacuous' if the all-enabled run shows fewer than 14 distinct types",
		Assumptions: []string{"the workspace under checks/c17.go triggers the diagnostic types listed in the evidence counters", "apart from the class declared twice, files whose diagnostics are ignored have no cross-file influence on the other files of the workspace"},
		Flavour:     "prod+overlay", QuickBudgetS: 150, ThoroughBudgetS: 900,
		Spaces: func(tier string) []*core.Space {
			bits := 20
			if tier == "thorough" {
				bits = 26
			}
			return []*core.Space{c17PureSpace(bits), c17ServerSpace(tier), c17RuleSpace(), c17JSONSpace()}
		},
		Post: func(tier string, total *core.Result) {
			// vacuity guard, evaluated in the parent
			base, err := c17Baseline()
			if err != nil {
				total.Fail("baseline", 0, "baseline-server-start-failed", "", map[string]interface{}{"error": err.Error()})
				return
			}
			types := map[int]bool{}
			for _, d := range base {
				types[d.Type] = true
			}
			var ts []int
			for t := range types {
				ts = append(ts, t)
			}
			sort.Ints(ts)
			total.Count("baseline_distinct_diagnostic_types", int64(len(ts)))
			for _, t := range ts {
				total.Count(fmt.Sprintf("baseline_has_type_%02d", t), 1)
			}
			if len(ts) < 14 {
				total.Fail("baseline", 0, "vacuous-baseline-workspace", fmt.Sprint(ts), map[string]interface{}{"types": ts})
			}
		},
	})
}
