package checks

import (
	"fmt"
	"os"
	"path/filepath"
	"sort"
	"strings"

	"verif/internal/core"
	"verif/internal/drv"
)

// C15: annotated types give a variable exactly its declared and inherited members.

type c15Case struct {
	classes []string   // class names
	parents [][]string // parents[i] = parents of classes[i]
	alias   int        // 0 none, 1 X->T, 2 X->Y,Y->T, 3 X->Y,Y->X (alias cycle; the variable is typed by X), 4 X->Y|Z, Y->X|Z, Z->X|Y (cycle through unions)
	wrap    int        // 0 T, 1 T[], 2 table<string,T> (v["k"].), 3 table<number,T> (v[1].), 4 a class field of type table<string,T> (v.f.k.), 5 table<string,table<string,T>> (v.x.y.), 6 T[][] (v[1][2].)
	split   bool       // declarations in defs.lua, variable in main.lua
	layout  int        // 0 class blocks separated by blank lines; 1 one contiguous comment block; 2 one file per class; 3 every class declared in two files (each part with its own field); 4 the file of a class also holds a part of each of its direct parents (field f<parent>_<child>); 5 the same, except that the file of the root class holds no such parts
}

func (c c15Case) assignsInheritedName() bool { return c.wrap == 0 && c.layout == 1 && !c.split }

func (c c15Case) fieldOf(cl string) string { return "f" + c15Slug(cl) }

// c15Slug turns a class name (possibly dotted: ns._A, g.2d.A) into something usable inside a field or file name
func c15Slug(cl string) string { return strings.ToLower(strings.ReplaceAll(cl, ".", "")) }

// expected members of class 0 (transitively through parents; cycle-safe)
func (c c15Case) expected() map[string]bool {
	idx := map[string]int{}
	for i, n := range c.classes {
		idx[n] = i
	}
	seen := map[string]bool{}
	var walk func(n string)
	walk = func(n string) {
		if seen[n] {
			return
		}
		seen[n] = true
		for _, p := range c.parents[idx[n]] {
			walk(p)
		}
	}
	walk(c.classes[0])
	out := map[string]bool{}
	for n := range seen {
		out[c.fieldOf(n)] = true
		if c.layout == 3 {
			out[c.fieldOf(n)+"2"] = true
		}
		if c.layout == 4 || c.layout == 5 {
			// every part of n counts, also the parts that live in the files of the classes naming n as a parent
			for k, m := range c.classes {
				if m == n || (c.layout == 5 && k == 0) {
					continue
				}
				for _, p := range c.parents[k] {
					if p == n {
						out[c.fieldOf(n)+"_"+c15Slug(m)] = true
					}
				}
			}
		}
	}
	return out
}

func (c c15Case) build() (files map[string]string, mainFile string, access string, fieldLines map[string][2]interface{}) {
	var defs []string
	fieldLines = map[string][2]interface{}{}
	line := 0
	add := func(s string) { defs = append(defs, s); line++ }
	perClass := map[string]string{}
	for i, n := range c.classes {
		h := "---@class " + n
		if len(c.parents[i]) > 0 {
			h += " : " + strings.Join(c.parents[i], ", ")
		}
		if c.layout == 4 || c.layout == 5 {
			var sb strings.Builder
			ln := 0
			for _, p := range c.parents[i] {
				if p != n && !(c.layout == 5 && i == 0) {
					sb.WriteString("---@class " + p + "\n---@field " + c.fieldOf(p) + "_" + c15Slug(n) + " number\n\n")
					fieldLines[c.fieldOf(p)+"_"+c15Slug(n)] = [2]interface{}{"class_" + c15Slug(n) + ".lua", ln + 1}
					ln += 3
				}
			}
			sb.WriteString(h + "\n---@field " + c.fieldOf(n) + " number\n")
			fieldLines[c.fieldOf(n)] = [2]interface{}{"class_" + c15Slug(n) + ".lua", ln + 1}
			perClass["class_"+c15Slug(n)+".lua"] = sb.String()
			continue
		}
		if c.layout == 2 || c.layout == 3 {
			perClass["class_"+c15Slug(n)+".lua"] = h + "\n---@field " + c.fieldOf(n) + " number\n"
			fieldLines[c.fieldOf(n)] = [2]interface{}{"class_" + c15Slug(n) + ".lua", 1}
			if c.layout == 3 {
				// the second part of the class lives in another directory and repeats neither parents nor fields
				perClass["part2/class_"+c15Slug(n)+"_more.lua"] = "---@class " + n + "\n---@field " + c.fieldOf(n) + "2 number\n"
				fieldLines[c.fieldOf(n)+"2"] = [2]interface{}{"part2/class_" + c15Slug(n) + "_more.lua", 1}
			}
			continue
		}
		add(h)
		fieldLines[c.fieldOf(n)] = [2]interface{}{"", line}
		add("---@field " + c.fieldOf(n) + " number")
		if c.layout == 0 || i == len(c.classes)-1 {
			add("")
		}
	}
	typ := c.classes[0]
	switch c.alias {
	case 1:
		add("---@alias X " + typ)
		add("")
		typ = "X"
	case 2:
		add("---@alias Y " + typ)
		add("")
		add("---@alias X Y")
		add("")
		typ = "X"
	case 3:
		add("---@alias X Y")
		add("")
		add("---@alias Y X")
		add("")
		typ = "X" // the variable is typed by the cyclic alias: nothing to offer, but the server must survive
	case 4:
		add("---@alias X Y|Z")
		add("")
		add("---@alias Y X|Z")
		add("")
		add("---@alias Z X|Y")
		add("")
		typ = "X"
	}
	switch c.wrap {
	case 0:
		access = "v."
	case 1:
		typ += "[]"
		access = "v[1]."
	case 2:
		typ = "table<string, " + typ + ">"
		access = "v[\"k\"]."
	case 3:
		typ = "table<number, " + typ + ">"
		access = "v[1]."
	case 4:
		add("---@class Holder")
		add("---@field f table<string, " + typ + ">")
		add("")
		typ = "Holder"
		access = "v.f.k."
	case 5:
		typ = "table<string, table<string, " + typ + ">>"
		access = "v.x.y."
	case 6:
		typ += "[][]"
		access = "v[1][2]."
	}
	var use []string
	use = append(use, "---@type "+typ, "local v = {}")
	if c.wrap == 0 {
		use = append(use, "v.extra = 1")
		// a member assigned through the variable under the name of a field that the last class declares - only in one
		// layout, because for that field the assignment hides what inheritance contributes
		if c.assignsInheritedName() {
			use = append(use, "v."+c.fieldOf(c.classes[len(c.classes)-1])+" = 2")
		}
	}
	use = append(use, "print(v)")
	files = map[string]string{}
	for k, v := range perClass {
		files[k] = v
	}
	if c.split {
		files["defs.lua"] = strings.Join(defs, "\n") + "\n"
		files["main.lua"] = strings.Join(use, "\n") + "\n"
		mainFile = "main.lua"
		for k, v := range fieldLines {
			if v[0].(string) == "" {
				fieldLines[k] = [2]interface{}{"defs.lua", v[1]}
			}
		}
	} else {
		files["main.lua"] = strings.Join(append(defs, use...), "\n") + "\n"
		mainFile = "main.lua"
		for k, v := range fieldLines {
			if v[0].(string) == "" {
				fieldLines[k] = [2]interface{}{"main.lua", v[1]}
			}
		}
	}
	return
}

func c15Cases(tier string) []c15Case {
	var out []c15Case
	graphs := func(cs []string) [][][]string {
		n := len(cs)
		var gs [][][]string
		for mask := 0; mask < 1<<uint(n*n); mask++ {
			ps := make([][]string, n)
			for i := 0; i < n; i++ {
				for j := 0; j < n; j++ {
					if mask&(1<<uint(i*n+j)) != 0 {
						ps[i] = append(ps[i], cs[j])
					}
				}
			}
			gs = append(gs, ps)
		}
		return gs
	}
	// two classes: every graph x every alias shape x every wrapper x every layout
	two := []string{"A", "B"}
	for _, ps := range graphs(two) {
		for alias := 0; alias < 5; alias++ {
			for wrap := 0; wrap < 7; wrap++ {
				for _, split := range []bool{false, true} {
					for layout := 0; layout < 6; layout++ {
						out = append(out, c15Case{two, ps, alias, wrap, split, layout})
					}
				}
			}
		}
	}
	// dotted class names, also with segments that start with '_' or a digit (the annotation lexer takes '.', '_', letters
	// and digits alike after the first character): every graph x alias none/direct x plain/array wrapper x every layout
	for _, names := range [][]string{{"ui.A", "ui.B"}, {"ui._A", "ui._B"}, {"g.2d.A", "g.2d.B"}, {"_A", "_B"}} {
		for _, ps := range graphs(names) {
			for alias := 0; alias < 2; alias++ {
				for wrap := 0; wrap < 2; wrap++ {
					for _, split := range []bool{false, true} {
						for layout := 0; layout < 6; layout++ {
							out = append(out, c15Case{names, ps, alias, wrap, split, layout})
						}
					}
				}
			}
		}
	}
	// three classes: every graph (cycles that do not contain the root included) with the plain shape in every layout;
	// thorough: crossed with the alias shapes and wrappers as well
	three := []string{"A", "B", "C"}
	for _, ps := range graphs(three) {
		for layout := 0; layout < 6; layout++ {
			for _, split := range []bool{false, true} {
				out = append(out, c15Case{three, ps, 0, 0, split, layout})
				if tier == "thorough" {
					for alias := 0; alias < 5; alias++ {
						for wrap := 0; wrap < 7; wrap++ {
							if alias == 0 && wrap == 0 {
								continue
							}
							out = append(out, c15Case{three, ps, alias, wrap, split, layout})
						}
					}
				}
			}
		}
	}
	return out
}

func c15Space(tier string) *core.Space {
	cases := c15Cases(tier)
	desc := func(c c15Case) map[string]interface{} {
		files, _, access, _ := c.build()
		return map[string]interface{}{"files": files, "member_access": access}
	}
	return &core.Space{
		Name: "inheritance-graphs-x-alias-shapes-x-wrappers-x-layouts", N: int64(len(cases)), Chunk: 50, RecycleEvery: 20, PerCaseTimeoutS: 30,
		Describe: func(i int64) interface{} { return desc(cases[i]) },
		Run: func(i int64, r *core.Result) {
			c := cases[i]
			files, mainFile, access, fieldLines := c.build()
			r.Evaluated++
			root := drv.NewWorkspace(files)
			defer drv.RemoveWorkspace(root)
			s, err := drv.Start(root, drv.Options{InitOptions: drv.AllChecks()})
			if err != nil {
				r.Fail("c15", i, "server-start-failed", fmt.Sprint(files), map[string]interface{}{"error": err.Error(), "case": desc(c)})
				return
			}
			defer s.Close()
			text := files[mainFile]
			s.Open(mainFile, text)
			cyclic := false
			for k, ps := range c.parents {
				for _, p := range ps {
					if p == c.classes[k] {
						cyclic = true
					}
				}
			}
			if len(c.parents[0]) > 0 || c.alias > 0 {
				r.Nontrivial++
			}
			_ = cyclic
			// the alias cycle X->Y->X: the variable's type does not denote a class; only liveness is required
			want := c.expected()
			assignedField := ""
			if c.assignsInheritedName() {
				assignedField = c.fieldOf(c.classes[len(c.classes)-1])
				want[assignedField] = true // assigned through the variable
			}
			if c.alias >= 3 {
				want = map[string]bool{}
			}
			// completion after the member access typed on a new last line
			nLines := strings.Count(text, "\n")
			buf := text + "local q = " + access
			s.ChangeFull(mainFile, buf)
			items, err := s.Completion(mainFile, nLines, len("local q = "+access), ".")
			r.Transitions += 4
			r.States++
			shape := fmt.Sprintf("alias%d wrap%d split=%v layout%d", c.alias, c.wrap, c.split, c.layout)
			var parentsDesc []string
			for k, n := range c.classes {
				parentsDesc = append(parentsDesc, n+":"+strings.Join(c.parents[k], "+"))
			}
			ctx := strings.Join(parentsDesc, " ") + " | " + shape
			fail := func(sig string, det map[string]interface{}) {
				r.Outcome(sig)
				det["case"] = desc(c)
				coreS := sig + " | " + ctx
				det["failure_core"] = coreS
				r.Fail("c15", i, sig, coreS, det)
			}
			if err != nil {
				fail("completion-request-error", map[string]interface{}{"error": err.Error()})
				return
			}
			// liveness of the indexed forms: local w = v[1] ; hover on w
			buf3 := text + "local w = v[1]\nprint(w)\nlocal w2 = v[\"k\"]\nprint(w2)"
			s.ChangeFull(mainFile, buf3)
			s.Hover(mainFile, nLines, 6)
			s.Hover(mainFile, nLines+2, 6)
			s.Definition(mainFile, nLines+1, 6)
			r.Transitions += 4
			labels := map[string]bool{}
			for _, it := range items {
				labels[it.Label] = true
			}
			var missing, extra []string
			for f := range want {
				if !labels[f] {
					missing = append(missing, f)
				}
			}
			for _, n := range c.classes {
				cand := []string{c.fieldOf(n), c.fieldOf(n) + "2"}
				for _, m := range c.classes {
					cand = append(cand, c.fieldOf(n)+"_"+c15Slug(m))
				}
				for _, f := range cand {
					if labels[f] && !want[f] && c.alias < 3 {
						extra = append(extra, f)
					}
				}
			}
			if c.wrap == 0 && c.alias < 3 && !labels["extra"] {
				missing = append(missing, "extra(assigned through the variable)")
			}
			sort.Strings(missing)
			sort.Strings(extra)
			if len(missing) > 0 {
				ctx += " | missing " + strings.Join(missing, ",")
				fail("inherited-or-declared-member-missing-from-completion", map[string]interface{}{"missing": missing, "offered": keys(labels)})
			} else if len(extra) > 0 {
				ctx += " | extra " + strings.Join(extra, ",")
				fail("member-of-unrelated-class-offered", map[string]interface{}{"extra": extra, "offered": keys(labels)})
			} else {
				r.Outcome("members-exact")
			}
			// member go-to-definition (plain variable only: print(v.<field>))
			if c.wrap == 0 && c.alias != 3 {
				for f := range want {
					if f == assignedField {
						continue // its definition may be the assignment through the variable
					}
					buf2 := text + "print(v." + f + ")"
					s.ChangeFull(mainFile, buf2)
					locs, err := s.Definition(mainFile, nLines, len("print(v.")+1)
					r.Transitions += 2
					if err != nil {
						continue
					}
					wl := fieldLines[f]
					ok := false
					for _, l := range locs {
						if s.Rel(l.URI) == wl[0].(string) && l.Range.Start.Line == wl[1].(int) {
							ok = true
						}
					}
					if !ok {
						fail("member-definition-does-not-reach-the-field", map[string]interface{}{"field": f, "expected": fmt.Sprint(wl), "answer": frSet(locsToFR(s, locs))})
						break
					}
				}
			}
			// history: the file of a direct parent class is deleted (watched-files event only). The hierarchy the members
			// come from must follow: exactly the members reachable without that class remain
			if c.layout == 2 && c.alias == 0 && c.wrap == 0 {
				victim := ""
				for _, p := range c.parents[0] {
					if p != c.classes[0] {
						victim = p
						break
					}
				}
				if victim != "" {
					c2 := c15Case{classes: c.classes, alias: c.alias, wrap: c.wrap, split: c.split, layout: c.layout}
					for k := range c.classes {
						var ps []string
						if c.classes[k] != victim {
							for _, p := range c.parents[k] {
								if p != victim {
									ps = append(ps, p)
								}
							}
						}
						c2.parents = append(c2.parents, ps)
					}
					want2 := c2.expected()
					delete(want2, c.fieldOf(victim))
					if assignedField != "" {
						want2[assignedField] = true
					}
					vf := "class_" + c15Slug(victim) + ".lua"
					os.Remove(filepath.Join(root, vf))
					s.Watched([]drv.FileEvent{{Rel: vf, Type: 3}})
					s.ChangeFull(mainFile, buf)
					items2, err := s.Completion(mainFile, nLines, len("local q = "+access), ".")
					r.Transitions += 3
					if err == nil {
						l2 := map[string]bool{}
						for _, it := range items2 {
							l2[it.Label] = true
						}
						var stale, lost []string
						for _, n := range c.classes {
							f := c.fieldOf(n)
							if l2[f] && !want2[f] {
								stale = append(stale, f)
							}
							if !l2[f] && want2[f] {
								lost = append(lost, f)
							}
						}
						sort.Strings(stale)
						sort.Strings(lost)
						if len(stale) > 0 {
							fail("members-of-a-deleted-parent-class-still-offered", map[string]interface{}{"deleted_file": vf, "stale": stale, "offered": keys(l2)})
						} else if len(lost) > 0 {
							fail("members-lost-after-deleting-another-class-file", map[string]interface{}{"deleted_file": vf, "lost": lost, "offered": keys(l2)})
						} else {
							r.Outcome("members-follow-the-deletion")
						}
					}
				}
			}
			if i%53 == 0 {
				r.Sample(map[string]interface{}{"case": desc(c), "expected_members": keys(want), "offered": keys(labels)})
			}
		},
	}
}

func keys(m map[string]bool) []string {
	var k []string
	for s := range m {
		k = append(k, s)
	}
	sort.Strings(k)
	return k
}

func init() {
	core.Register(&core.Check{
		ID:        "C15",
		Technique: "bounded-exhaustive enumeration of class hierarchies (every parent-set assignment over 2 (quick) / 3 (thorough) classes, cycles and self-inheritance included) x alias shapes x wrapper types x file layouts on the real server against a cycle-safe transitive-closure model",
		Rule: "classes A, B (, C) each with one field; every assignment of parent sets (16 / 512 graphs); aliases {none, X->A, X->Y->A, X->Y->X, X->Y|Z with Y->X|Z and Z->X|Y}; the variable typed by ---@type T, T[], table<string,T>, table<number,T>, a class whose field is table<string,T>, or table<string,table<string,T>>; declarations in the same file or in a second file; a member assigned through the variable. " +
			"member completion behind v. / v[1]. / v[\"k\"]. must offer exactly the fields of A and of all its ancestors (plus the assigned member), no field of an unrelated class; member go-to-definition must reach the ---@field line; cyclic hierarchies and alias cycles must neither crash nor hang (worker journal attributes them). " +
			"states = cases judged; non-trivial = cases with inheritance or an alias",
		Assumptions: []string{"other completion labels are ignored", "for the alias cycles (X->Y->X, and the cycle through unions) only liveness is required"},
		Flavour:     "prod+overlay", QuickBudgetS: 150, ThoroughBudgetS: 900,
		Spaces: func(tier string) []*core.Space { return []*core.Space{c15Space(tier)} },
	})
}
