package checks

import (
	"fmt"
	"sort"
	"strings"

	"verif/internal/core"
	"verif/internal/drv"
	"verif/internal/luaref"
)

// C14: completion offers exactly the names in scope at the cursor.

// uniqueNames rewrites a program so that every declaration has its own name
// (va, vb, ... in declaration order) and the globals a, b become vx, vy.
func uniqueNames(text string) (string, bool) {
	p := luaref.Parse(text)
	if p.Err != nil {
		return "", false
	}
	b := luaref.Bind(p.Chunk)
	type sub struct {
		s, e int
		to   string
	}
	var subs []sub
	for _, o := range b.Occs {
		if o.Start == o.End {
			continue
		}
		to := ""
		if o.Decl >= 0 {
			to = "v" + string(rune('a'+o.Decl))
		} else if o.Name == "a" {
			to = "vx"
		} else if o.Name == "b" {
			to = "vy"
		} else {
			continue
		}
		subs = append(subs, sub{o.Start, o.End, to})
	}
	sort.Slice(subs, func(i, j int) bool { return subs[i].s > subs[j].s })
	out := text
	for _, s := range subs {
		out = out[:s.s] + s.to + out[s.e:]
	}
	return out, true
}

// boundaries returns, for every block of the program, the line indices at
// which a statement can be inserted, with the indentation of that block.
type c14Boundary struct {
	line   int
	indent string
	// expression cursor: the modified text and column are given directly
	expr bool
	mod  string
	col  int
}

func c14Boundaries(text string) []c14Boundary {
	lines := strings.Split(strings.TrimSuffix(text, "\n"), "\n")
	var out []c14Boundary
	for L := 0; L <= len(lines); L++ {
		ind := ""
		if L < len(lines) {
			t := strings.TrimLeft(lines[L], " ")
			ind = lines[L][:len(lines[L])-len(t)]
			w := t
			if k := strings.IndexAny(t, " ("); k >= 0 {
				w = t[:k]
			}
			if w == "end" || w == "else" || w == "elseif" || w == "until" {
				ind += "  " // the end of the inner block
			}
		}
		// the insertion must leave a valid program (not behind a return)
		nl := append(append(append([]string{}, lines[:L]...), ind+"print(v)"), lines[L:]...)
		if luaref.Parse(strings.Join(nl, "\n")+"\n").Err != nil {
			continue
		}
		out = append(out, c14Boundary{line: L, indent: ind})
	}
	return out
}

const c14Other = "vg = 1\nfunction vh() end\n"

func c14Space(d scopeSpaceDef) *core.Space {
	return &core.Space{
		Name: d.name, N: d.count(), Chunk: 200, RecycleEvery: 30,
		Describe: func(i int64) interface{} {
			t, _ := uniqueNames(d.at(i).Text)
			return map[string]interface{}{"m.lua": t, "o.lua": c14Other}
		},
		Run: func(i int64, r *core.Result) {
			base := d.at(i)
			r.Evaluated++
			text, ok := uniqueNames(base.Text)
			if !ok {
				return
			}
			files := map[string]string{"m.lua": text, "o.lua": c14Other}
			root := drv.NewWorkspace(files)
			defer drv.RemoveWorkspace(root)
			s, err := drv.Start(root, drv.Options{})
			if err != nil {
				r.Fail(d.name, i, "server-start-failed", text, map[string]interface{}{"error": err.Error()})
				return
			}
			defer s.Close()
			s.Open("m.lua", text)
			lines := strings.Split(strings.TrimSuffix(text, "\n"), "\n")
			bs := c14Boundaries(text)
			if len(bs) > 2 {
				r.Nontrivial++
			}
			// cursors inside expressions: every read of a variable is replaced by the prefix v (until conditions,
			// loop bounds, initialisers, call arguments, ...)
			if pb := luaref.Parse(text); pb.Err == nil {
				for _, o := range luaref.Bind(pb.Chunk).Occs {
					if o.Kind != "read" || !strings.HasPrefix(o.Name, "v") {
						continue
					}
					modE := text[:o.Start] + "v" + text[o.End:]
					ln := strings.Count(text[:o.Start], "\n")
					colE := o.Start - (strings.LastIndex(text[:o.Start], "\n") + 1)
					bs = append(bs, c14Boundary{line: ln, indent: "", expr: true, mod: modE, col: colE + 1})
				}
			}
			for _, bd := range bs {
				// insert "print(v)" as a new line at the boundary
				nl := append(append(append([]string{}, lines[:bd.line]...), bd.indent+"print(v)"), lines[bd.line:]...)
				mod := strings.Join(nl, "\n") + "\n"
				if bd.expr {
					mod = bd.mod
					nl = strings.Split(strings.TrimSuffix(mod, "\n"), "\n")
				}
				pm := luaref.Parse(mod)
				if pm.Err != nil {
					r.Fail(d.name, i, "harness-insertion-not-valid", mod, map[string]interface{}{"text": mod, "error": pm.Err.Error()})
					continue
				}
				bm := luaref.Bind(pm.Chunk)
				col := len(bd.indent) + 7
				if bd.expr {
					col = bd.col
				}
				// offset of the cursor (just behind the v)
				off := 0
				for k := 0; k < bd.line; k++ {
					off += len(nl[k]) + 1
				}
				off += col
				vis := bm.VisibleAt(off - 1)
				s.ChangeFull("m.lua", mod)
				items, err := s.Completion("m.lua", bd.line, col, "")
				r.Transitions += 2
				r.States++
				if err != nil {
					r.Fail(d.name, i, "completion-request-error", mod, map[string]interface{}{"error": err.Error(), "text": mod})
					continue
				}
				labels := map[string]bool{}
				for _, it := range items {
					labels[it.Label] = true
				}
				if i%499 == 0 && bd.line == bs[0].line {
					r.Sample(map[string]interface{}{"buffer": mod, "cursor": fmt.Sprintf("%d:%d", bd.line, col), "visible_locals": len(vis), "labels": len(labels)})
				}
				// must include: visible locals, workspace globals with the prefix
				var missing, spurious []string
				for name, id := range vis {
					if !labels[name] {
						missing = append(missing, name+"("+bm.Decls[id].Kind+")")
					}
				}
				globals := map[string]bool{"vg": true, "vh": true}
				for _, o := range bm.Occs {
					if o.Decl < 0 && o.GlobalDef && strings.HasPrefix(o.Name, "v") {
						globals[o.Name] = true
					}
				}
				for g := range globals {
					if _, shadow := vis[g]; !shadow && !labels[g] {
						missing = append(missing, g+"(global)")
					}
				}
				for _, dcl := range bm.Decls {
					if _, ok := vis[dcl.Name]; !ok && labels[dcl.Name] && !globals[dcl.Name] {
						spurious = append(spurious, dcl.Name+"("+dcl.Kind+")")
					}
				}
				sort.Strings(missing)
				sort.Strings(spurious)
				if len(missing) == 0 && len(spurious) == 0 {
					r.Outcome("agree")
					continue
				}
				kinds := func(xs []string) string {
					m := map[string]bool{}
					for _, x := range xs {
						m[x[strings.Index(x, "("):]] = true
					}
					var ks []string
					for k := range m {
						ks = append(ks, k)
					}
					sort.Strings(ks)
					return strings.Join(ks, "")
				}
				sig := "completion:"
				if len(missing) > 0 {
					sig += "missing" + kinds(missing)
				}
				if len(spurious) > 0 {
					sig += "not-in-scope-offered" + kinds(spurious)
				}
				r.Outcome(sig)
				// failure core: the block-local neighbourhood of the cursor and the names concerned with their declaring lines
				declLine := func(n string) string {
					n = n[:strings.Index(n, "(")]
					for _, dcl := range bm.Decls {
						if dcl.Name == n {
							return lineAt(mod, rng(mod, dcl.Span))
						}
					}
					return n
				}
				var parts []string
				for _, m := range missing {
					parts = append(parts, "missing "+declLine(m))
				}
				for _, m := range spurious {
					parts = append(parts, "spurious "+declLine(m))
				}
				prev := ""
				if bd.line > 0 {
					prev = strings.TrimSpace(nl[bd.line-1])
				}
				next := ""
				if bd.line+1 < len(nl) {
					next = strings.TrimSpace(nl[bd.line+1])
				}
				coreS := fmt.Sprintf("%s | after [%s] before [%s] | %s", sig, prev, next, strings.Join(parts, " ; "))
				if bd.expr {
					coreS = fmt.Sprintf("%s | in [%s] col %d | %s", sig, strings.TrimSpace(nl[bd.line]), col-(len(nl[bd.line])-len(strings.TrimLeft(nl[bd.line], " "))), strings.Join(parts, " ; "))
				}
				r.Fail(d.name, i, sig, coreS, map[string]interface{}{"failure_core": coreS, "buffer": mod, "cursor": fmt.Sprintf("%d:%d", bd.line, col),
					"missing": missing, "offered_but_not_in_scope": spurious, "o.lua": c14Other})
			}
		},
	}
}

func init() {
	core.Register(&core.Check{
		ID:        "C14",
		Technique: "bounded-exhaustive program enumeration (all programs of the structure alphabet up to the node bound, uniquely renamed, every statement boundary of every block as cursor) on the real server against the visible-name sets of an independent reference binder",
		Rule: "programs of the structure alphabet with every declaration renamed to a unique name va, vb, ... and globals vx, vy (second file defines vg, vh); at every statement boundary of every block the line print(v) is inserted, sent as an unsaved full-text didChange, " +
			"and completion is requested right behind the v; required: every visible local/parameter/loop variable and every workspace global with prefix v is offered, no local that is declared later or in a non-enclosing block is offered. states = cursors judged; non-trivial = programs with >2 boundaries",
		Assumptions: []string{"other labels (keywords, snippets, library functions) are ignored", "reference visibility: Lua 5.4 manual §3.5 (internal/luaref.VisibleAt)"},
		Flavour:     "prod+overlay", QuickBudgetS: 150, ThoroughBudgetS: 1200,
		Spaces: func(tier string) []*core.Space {
			_, structure, _ := scopeAlphabets()
			if tier == "thorough" {
				return []*core.Space{c14Space(scopeSpaceDef{"structure<=3", structure, 1, 3, otherVariants[:1], 1, false, nil}),
					c14Space(scopeSpaceDef{"structure<=3-on-one-line", structure, 1, 3, otherVariants[:1], 1, true, nil}),
					c14Space(scopeSpaceDef{name: "sibling-blocks-on-one-line", others: otherVariants[:1], fixed: siblingBlockPrograms()}), c14PrefixSpace()}
			}
			return []*core.Space{c14Space(scopeSpaceDef{"structure<=2", structure, 1, 2, otherVariants[:1], 1, false, nil}),
				c14Space(scopeSpaceDef{"structure-3nodes-first-60000", structure, 3, 3, otherVariants[:1], 60000, false, nil}),
				c14Space(scopeSpaceDef{"structure<=2-on-one-line", structure, 1, 2, otherVariants[:1], 1, true, nil}),
				c14Space(scopeSpaceDef{name: "sibling-blocks-on-one-line", others: otherVariants[:1], fixed: siblingBlockPrograms()}), c14PrefixSpace()}
		},
	})
}
