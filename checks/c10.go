package checks

import (
	"encoding/json"
	"fmt"
	"os"
	"path/filepath"
	"sort"
	"strings"
	"time"

	"luahelper-lsp/langserver/vrt"

	"verif/internal/core"
	"verif/internal/drv"
	"verif/internal/sched"
)

// C10: requests that the transport runs concurrently are safe and serialisable.

var c10Files = map[string]string{
	"a.lua": "local va = 1\ngshared = va\nfunction gfun(p) return p end\nprint(gshared, gfun(va))\n",
	"b.lua": "print(gshared)\nlocal vb = gfun(2)\nprint(vb)\n",
}

const c10AChanged = "local va = 1\n\ngshared = va\nfunction gfun(p, q) return p end\nprint(gshared, gfun(va))\nlocal extra = 2\n"

type c10Msg struct {
	name   string
	notify bool
	run    func(s *drv.Server) string
}

func c10Messages() []c10Msg {
	raw := func(s *drv.Server, method string, params interface{}) string {
		r, err := s.CallRaw(method, params)
		if err != nil {
			return "error:" + err.Error()
		}
		return normaliseAnswer(method, strings.ReplaceAll(string(r), s.Root, "$ROOT"))
	}
	pos := func(s *drv.Server, f string, l, c int) map[string]interface{} {
		return map[string]interface{}{"textDocument": map[string]interface{}{"uri": s.URI(f)}, "position": map[string]interface{}{"line": l, "character": c}}
	}
	return []c10Msg{
		{"hover", false, func(s *drv.Server) string { return raw(s, "textDocument/hover", pos(s, "a.lua", 3, 17)) }},
		{"definition", false, func(s *drv.Server) string { return raw(s, "textDocument/definition", pos(s, "a.lua", 3, 17)) }},
		{"references", false, func(s *drv.Server) string {
			p := pos(s, "a.lua", 3, 7)
			p["context"] = map[string]interface{}{"includeDeclaration": true}
			return raw(s, "textDocument/references", p)
		}},
		{"rename", false, func(s *drv.Server) string {
			p := pos(s, "a.lua", 0, 6)
			p["newName"] = "zz"
			return raw(s, "textDocument/rename", p)
		}},
		// the same requests at a place that holds no identifier (the literal 1): the early-return paths of the handlers
		{"rename-on-literal", false, func(s *drv.Server) string {
			p := pos(s, "a.lua", 0, 11)
			p["newName"] = "zz"
			return raw(s, "textDocument/rename", p)
		}},
		{"references-on-literal", false, func(s *drv.Server) string {
			p := pos(s, "a.lua", 0, 11)
			p["context"] = map[string]interface{}{"includeDeclaration": true}
			return raw(s, "textDocument/references", p)
		}},
		{"documentSymbol", false, func(s *drv.Server) string {
			return raw(s, "textDocument/documentSymbol", map[string]interface{}{"textDocument": map[string]interface{}{"uri": s.URI("a.lua")}})
		}},
		{"workspaceSymbol", false, func(s *drv.Server) string { return raw(s, "workspace/symbol", map[string]interface{}{"query": "g"}) }},
		{"completion", false, func(s *drv.Server) string {
			p := pos(s, "a.lua", 3, 7)
			p["context"] = map[string]interface{}{"triggerKind": 1}
			return raw(s, "textDocument/completion", p)
		}},
		{"completion-v", false, func(s *drv.Server) string {
			// a second completion with another (shorter) candidate list: replies must not share storage
			p := pos(s, "a.lua", 1, 11)
			p["context"] = map[string]interface{}{"triggerKind": 1}
			return raw(s, "textDocument/completion", p)
		}},
		{"documentColor", false, func(s *drv.Server) string {
			return raw(s, "textDocument/documentColor", map[string]interface{}{"textDocument": map[string]interface{}{"uri": s.URI("a.lua")}})
		}},
		{"highlight", false, func(s *drv.Server) string { return raw(s, "textDocument/documentHighlight", pos(s, "a.lua", 3, 7)) }},
		{"hover-b", false, func(s *drv.Server) string { return raw(s, "textDocument/hover", pos(s, "b.lua", 0, 7)) }},
		{"didChange", true, func(s *drv.Server) string { s.ChangeFull("a.lua", c10AChanged); return "" }},
		{"didSave", true, func(s *drv.Server) string {
			os.WriteFile(filepath.Join(s.Root, "a.lua"), []byte(c10AChanged), 0o644)
			s.Save("a.lua", c10AChanged)
			return ""
		}},
		{"didClose", true, func(s *drv.Server) string { s.CloseDoc("a.lua"); return "" }},
		{"didOpen-b", true, func(s *drv.Server) string { s.Open("b.lua", c10Files["b.lua"]); return "" }},
		{"watched-created", true, func(s *drv.Server) string {
			os.WriteFile(filepath.Join(s.Root, "c.lua"), []byte("gshared = 3\n"), 0o644)
			s.Watched([]drv.FileEvent{{Rel: "c.lua", Type: 1}})
			return ""
		}},
		{"watched-deleted", true, func(s *drv.Server) string {
			os.Remove(filepath.Join(s.Root, "b.lua"))
			s.Watched([]drv.FileEvent{{Rel: "b.lua", Type: 3}})
			return ""
		}},
		{"didChangeConfiguration", true, func(s *drv.Server) string {
			all := make([]bool, 26)
			for i := range all {
				all[i] = i != 4
			}
			// the change also flips a plain setting (references no longer include the definition: the key is omitted) and
			// one that needs the project to be rebuilt (b.lua becomes an ignored file)
			st := c17Settings(all)
			st["settings"].(map[string]interface{})["luahelper"].(map[string]interface{})["base"] = map[string]interface{}{"IgnoreFileOrDir": []string{"b.lua"}}
			s.NotifyAsync("workspace/didChangeConfiguration", st)
			return ""
		}},
	}
}

type c10Scenario struct {
	msgs []int // indices into c10Messages
}

func (sc c10Scenario) String(ms []c10Msg) string {
	var n []string
	for _, m := range sc.msgs {
		n = append(n, ms[m].name)
	}
	return strings.Join(n, " || ")
}

func c10Scenarios(tier string) []c10Scenario {
	ms := c10Messages()
	var reqs, ntfs []int
	for i, m := range ms {
		if m.notify {
			ntfs = append(ntfs, i)
		} else {
			reqs = append(reqs, i)
		}
	}
	var out []c10Scenario
	// request || notification, both arrival orders
	for _, r := range reqs {
		for _, n := range ntfs {
			out = append(out, c10Scenario{[]int{r, n}}, c10Scenario{[]int{n, r}})
		}
	}
	// request || request
	for i, a := range reqs {
		for _, b := range reqs[i+1:] {
			out = append(out, c10Scenario{[]int{a, b}})
		}
	}
	// a request followed by two notifications (it may be admitted before the first and get the lock after the second)
	name2idx := map[string]int{}
	for i, m := range ms {
		name2idx[m.name] = i
	}
	for _, r := range []string{"references", "hover", "definition", "completion"} {
		for _, np := range [][2]string{{"didChangeConfiguration", "didChange"}, {"didChange", "didSave"}, {"didChange", "didChangeConfiguration"}} {
			out = append(out, c10Scenario{[]int{name2idx[r], name2idx[np[0]], name2idx[np[1]]}})
		}
	}
	if tier == "thorough" {
		// three messages in flight: request, notification, request and request, request, notification
		for _, r1 := range reqs[:5] {
			for _, n := range ntfs[:4] {
				for _, r2 := range reqs[:5] {
					out = append(out, c10Scenario{[]int{r1, n, r2}})
				}
			}
		}
	}
	return out
}

func c10Setup() (*drv.Server, string, error) {
	root := drv.NewWorkspace(c10Files)
	s, err := drv.StartDirect(root, drv.Options{InitOptions: drv.AllChecks()})
	if err != nil {
		return nil, root, err
	}
	// the client's automatic first configuration synchronisation, then the document the user edits
	all := make([]bool, 26)
	for i := range all {
		all[i] = true
	}
	s.NotifyAsync("workspace/didChangeConfiguration", c17Settings(all))
	s.Open("a.lua", c10Files["a.lua"])
	return s, root, nil
}

// sequential answers: for every order of the messages that keeps the notifications in arrival order
func c10Sequential(sc c10Scenario, ms []c10Msg) map[int]map[string]bool {
	acc := map[int]map[string]bool{}
	var perms [][]int
	var rec func(cur []int, used []bool)
	rec = func(cur []int, used []bool) {
		if len(cur) == len(sc.msgs) {
			// notifications must keep their arrival order
			last := -1
			for _, k := range cur {
				if ms[sc.msgs[k]].notify {
					if k < last {
						return
					}
					last = k
				}
			}
			perms = append(perms, append([]int{}, cur...))
			return
		}
		for k := range sc.msgs {
			if !used[k] {
				used[k] = true
				rec(append(cur, k), used)
				used[k] = false
			}
		}
	}
	rec(nil, make([]bool, len(sc.msgs)))
	for _, p := range perms {
		s, root, err := c10Setup()
		if err != nil {
			continue
		}
		for _, k := range p {
			a := ms[sc.msgs[k]].run(s)
			if !ms[sc.msgs[k]].notify {
				if acc[k] == nil {
					acc[k] = map[string]bool{}
				}
				acc[k][a] = true
			}
		}
		s.Close()
		drv.RemoveWorkspace(root)
	}
	return acc
}

func c10Space(tier string) *core.Space {
	ms := c10Messages()
	scs := c10Scenarios(tier)
	return &core.Space{
		Name: "in-flight-message-words-x-schedules", N: int64(len(scs)), Chunk: 1, RecycleEvery: 4, ChunkTimeoutS: 1800,
		Describe: func(i int64) interface{} {
			return map[string]interface{}{"messages_in_arrival_order": scs[i].String(ms), "workspace": c10Files}
		},
		Run: func(i int64, r *core.Result) {
			sc := scs[i]
			vrt.SetNumCPU(1)
			vrt.SetMapOrder(true, 0)
			vrt.SetClock(time.Unix(1700000000, 0))
			defer func() { vrt.SetNumCPU(0); vrt.SetMapOrder(false, 0); vrt.ClearClock() }()
			desc := sc.String(ms)
			// the sequential specification is computed on the same build, on one thread (pass-through runtime)
			seq := c10Sequential(sc, ms)
			answers := make([]string, len(sc.msgs))
			body := func() string {
				s, root, err := c10Setup()
				if err != nil {
					return "start-error:" + err.Error()
				}
				defer drv.RemoveWorkspace(root)
				defer s.Close()
				// jrpc2 encodes a reply after the handler has returned: other handlers may run in between
				s.AfterHandler = func() { vrt.Yield("before-reply-encoding") }
				// dispatcher model M1: a handler starts when every earlier notification has finished
				done := make([]*vrt.WaitGroup, len(sc.msgs))
				for k := range sc.msgs {
					done[k] = &vrt.WaitGroup{}
					done[k].Add(1)
				}
				var all vrt.WaitGroup
				all.Add(len(sc.msgs))
				sched.BeginExplore()
				for k := range sc.msgs {
					k := k
					vrt.Go(func() {
						vrt.SetGroup(k + 1)
						for j := 0; j < k; j++ {
							if ms[sc.msgs[j]].notify {
								done[j].Wait()
							}
						}
						answers[k] = ms[sc.msgs[k]].run(s)
						done[k].Done()
						all.Done()
					})
				}
				all.Wait()
				b, _ := json.Marshal(answers)
				return string(b)
			}
			scen := &sched.Scenario{Name: desc, Body: body, YieldAtMethods: true}
			bound, maxExec := 2, int64(4000)
			if tier == "thorough" {
				bound, maxExec = 3, 40000
			}
			outcomes := map[string]bool{}
			races := map[string]bool{}
			reported := map[string]bool{}
			stt := sched.Explore(scen, bound, maxExec, time.Now().Add(20*time.Minute), func(ex *sched.Exec) bool {
				r.Evaluated++
				r.States++
				r.Transitions += int64(len(ex.Points) - ex.From)
				if ex.Err != "" {
					r.Count("harness_errors:"+ex.Err, 1)
					return true
				}
				fail := func(sig, coreS string, det map[string]interface{}) {
					if reported[sig+coreS] {
						return
					}
					reported[sig+coreS] = true
					det["failure_core"] = coreS
					det["messages_in_arrival_order"] = desc
					det["schedule"] = ex.Choices[ex.From:]
					det["schedule_starts_at_point"] = ex.From
					r.Fail("c10", i, sig, coreS, det)
				}
				if ex.Res.Deadlock {
					fail("deadlock", "deadlock | "+desc, map[string]interface{}{"blocked": ex.Res.Blocked})
					return true
				}
				if ex.Res.Panic != nil {
					fail("panic-under-interleaving", "panic | "+desc+" | "+firstRepoFrame(ex.Res.PanicAt), map[string]interface{}{"panic": fmt.Sprint(ex.Res.Panic), "stack": ex.Res.PanicAt})
					return true
				}
				for _, rc := range ex.Res.Races {
					a, b := rc.MethodA, rc.MethodB
					if a > b {
						a, b = b, a
					}
					k := rc.Type + ": " + a + " / " + b
					if !races[k] {
						races[k] = true
					}
					fail("unsynchronised-overlap:"+rc.Type, fmt.Sprintf("unsynchronised-overlap | %s | %s", k, desc),
						map[string]interface{}{"object": rc.Type, "method_a": rc.MethodA, "method_b": rc.MethodB, "a_writes": rc.WriterA, "b_writes": rc.WriterB})
				}
				outcomes[ex.Obs] = true
				var got []string
				json.Unmarshal([]byte(ex.Obs), &got)
				for k := range sc.msgs {
					if ms[sc.msgs[k]].notify || k >= len(got) {
						continue
					}
					if !seq[k][got[k]] {
						var acc []string
						for a := range seq[k] {
							acc = append(acc, a)
						}
						sort.Strings(acc)
						fail("answer-not-produced-by-any-sequential-order:"+ms[sc.msgs[k]].name, fmt.Sprintf("non-serialisable-answer | %s | %s", ms[sc.msgs[k]].name, desc),
							map[string]interface{}{"request": ms[sc.msgs[k]].name, "answer": got[k], "sequential_answers": acc})
					}
				}
				return true
			})
			if stt.NonDeterministic {
				r.Count("harness_errors:default schedule not reproducible", 1)
			}
			r.Count("choice_points_with_alternatives", stt.ChoicePoints)
			if stt.Capped {
				r.Count("scenarios_capped_before_bound_completed", 1)
			} else {
				r.Count("scenarios_completed_to_bound", 1)
			}
			if len(outcomes) > 1 {
				r.Nontrivial++
			}
			r.Outcome(fmt.Sprintf("distinct-answer-vectors=%d", len(outcomes)))
			if i%9 == 0 {
				r.Sample(map[string]interface{}{"messages_in_arrival_order": desc, "executions": stt.Executions, "distinct_answer_vectors": len(outcomes), "overlaps": len(races), "deviation_bound": bound})
			}
		},
	}
}

// normaliseAnswer sorts the lists that the protocol defines as unordered (Appendix E of DESIGN.md).
func normaliseAnswer(method, js string) string {
	switch method {
	case "textDocument/completion":
		var cl struct {
			Items []struct {
				Label string `json:"label"`
				Kind  int    `json:"kind"`
			} `json:"items"`
		}
		if json.Unmarshal([]byte(js), &cl) != nil {
			return js
		}
		var ls []string
		for _, it := range cl.Items {
			ls = append(ls, fmt.Sprintf("%s/%d", it.Label, it.Kind))
		}
		sort.Strings(ls)
		return strings.Join(ls, ",")
	case "textDocument/references", "workspace/symbol":
		var arr []json.RawMessage
		if json.Unmarshal([]byte(js), &arr) != nil {
			return js
		}
		var ls []string
		for _, a := range arr {
			ls = append(ls, string(a))
		}
		sort.Strings(ls)
		return "[" + strings.Join(ls, ",") + "]"
	case "textDocument/rename":
		var we struct {
			Changes map[string][]json.RawMessage `json:"changes"`
		}
		if json.Unmarshal([]byte(js), &we) != nil {
			return js
		}
		var fs []string
		for f, eds := range we.Changes {
			var ls []string
			for _, e := range eds {
				ls = append(ls, string(e))
			}
			sort.Strings(ls)
			fs = append(fs, f+":"+strings.Join(ls, ","))
		}
		sort.Strings(fs)
		return strings.Join(fs, ";")
	}
	return js
}

func firstRepoFrame(stack string) string {
	for _, l := range strings.Split(stack, "\n") {
		if strings.HasPrefix(l, "luahelper-lsp/") && !strings.Contains(l, "/vrt.") {
			if i := strings.Index(l, "("); i > 0 {
				return l[:i]
			}
			return l
		}
	}
	return "?"
}

func init() {
	core.Register(&core.Check{
		ID:        "C10",
		Technique: "stateless schedule exploration of the real handlers under the controlled runtime: every word of 2 (thorough: 3) in-flight messages is dispatched exactly as the jrpc2 dispatcher model allows and every interleaving with <=2 (thorough: <=3) deviations at lock, channel and shared-object method-entry points is executed; oracles: lockset/overlap check on shared objects, no panic/deadlock, every answer produced by some sequential order",
		Rule: "messages: requests (hover, definition, references, rename, rename and references on a literal, documentSymbol, workspace/symbol, completion, hover in another file) and 7 notifications (didChange, didSave, didClose, didOpen, watched created/deleted, didChangeConfiguration) on a two-file workspace with a.lua open; words: request||notification in both arrival orders, request||request, and (thorough) request,notification,request triples; " +
			"each handler runs as a managed thread that starts when all earlier notifications have finished (dispatcher model, see the TLA+ model under /verif/tla); states = completed interleavings; transitions = scheduling decisions of the concurrent phase; non-trivial = words with more than one answer vector",
		Assumptions: []string{
			"interleaving granularity: lock/unlock, channel and WaitGroup operations and the entries of methods of the shared objects (LspServer, AllProject, FileMapCache, GlobalConfig, DirManager, ...); code between two such points runs atomically",
			"an 'unsynchronised access' is an overlap of two activations of methods of the same object, at least one of which assigns through its receiver, with no common mutex held (writer classification is syntactic)",
			"sequential specification: the same build run on one thread, every order of the messages that keeps the notifications in arrival order",
		},
		Flavour: "inst-ctl", QuickBudgetS: 300, ThoroughBudgetS: 1800,
		Spaces: func(tier string) []*core.Space {
			sp := []*core.Space{c10Space(tier), c10DispatchSpace(2), c10DispatchSpace(3), racePassSpace("c10", 40)}
			if tier == "thorough" {
				sp = append(sp, c10DispatchSpace(4))
			}
			return sp
		},
	})
}
