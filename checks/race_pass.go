package checks

import (
	"bufio"
	"fmt"
	"os"
	"os/exec"
	"path/filepath"
	"sort"
	"strings"
	"time"

	"luahelper-lsp/langserver/vrt"

	"verif/internal/core"
	"verif/internal/drv"
)

// Free-running race-detector pass (complement of the schedule explorer, see DESIGN.md §8.4/§10).
//
// Under the controlled runtime exactly one thread runs at a time and hand-offs are happens-before edges, so the
// explorer cannot see two plain memory accesses that lack synchronisation *between* scheduling points (and Go's race
// detector is blind there for the same reason). The same harness bodies are therefore also run free — real goroutines,
// the real jrpc2 dispatcher with its concurrency of 4 — in a second binary built with -race, and every report of Go's
// happens-before race detector that involves repository code is a violation. This pass is NOT exhaustive (it is one
// free schedule per repetition); the detector is happens-before based, so a pair of conflicting accesses is reported
// whenever both are executed without ordering, not only when they physically collide.

type raceMsg struct {
	name   string
	notify bool
	method string
	params func(s *drv.Server) interface{}
	pre    func(s *drv.Server)
}

func raceMessages() []raceMsg {
	pos := func(f string, l, c int) func(s *drv.Server) interface{} {
		return func(s *drv.Server) interface{} {
			return map[string]interface{}{"textDocument": map[string]interface{}{"uri": s.URI(f)}, "position": map[string]interface{}{"line": l, "character": c},
				"context": map[string]interface{}{"includeDeclaration": true, "triggerKind": 1}, "newName": "zz"}
		}
	}
	doc := func(f string) func(s *drv.Server) interface{} {
		return func(s *drv.Server) interface{} {
			return map[string]interface{}{"textDocument": map[string]interface{}{"uri": s.URI(f)}}
		}
	}
	return []raceMsg{
		{"hover", false, "textDocument/hover", pos("a.lua", 3, 17), nil},
		{"definition", false, "textDocument/definition", pos("a.lua", 3, 17), nil},
		{"references", false, "textDocument/references", pos("a.lua", 3, 7), nil},
		{"rename", false, "textDocument/rename", pos("a.lua", 0, 6), nil},
		{"documentSymbol", false, "textDocument/documentSymbol", doc("a.lua"), nil},
		{"workspaceSymbol", false, "workspace/symbol", func(s *drv.Server) interface{} { return map[string]interface{}{"query": "g"} }, nil},
		{"completion", false, "textDocument/completion", pos("a.lua", 3, 7), nil},
		{"completion-v", false, "textDocument/completion", pos("a.lua", 1, 11), nil},
		{"highlight", false, "textDocument/documentHighlight", pos("a.lua", 3, 7), nil},
		{"signatureHelp", false, "textDocument/signatureHelp", pos("a.lua", 3, 20), nil},
		{"documentColor", false, "textDocument/documentColor", doc("a.lua"), nil},
		{"hover-b", false, "textDocument/hover", pos("b.lua", 0, 7), nil},
		{"didChange", true, "textDocument/didChange", func(s *drv.Server) interface{} {
			return map[string]interface{}{"textDocument": map[string]interface{}{"uri": s.URI("a.lua"), "version": 2}, "contentChanges": []interface{}{map[string]interface{}{"text": c10AChanged}}}
		}, nil},
		{"didSave", true, "textDocument/didSave", func(s *drv.Server) interface{} {
			return map[string]interface{}{"textDocument": map[string]interface{}{"uri": s.URI("a.lua")}, "text": c10AChanged}
		}, func(s *drv.Server) { os.WriteFile(filepath.Join(s.Root, "a.lua"), []byte(c10AChanged), 0o644) }},
		{"didClose", true, "textDocument/didClose", doc("a.lua"), nil},
		{"didOpen-b", true, "textDocument/didOpen", func(s *drv.Server) interface{} {
			return map[string]interface{}{"textDocument": map[string]interface{}{"uri": s.URI("b.lua"), "languageId": "lua", "version": 1, "text": c10Files["b.lua"]}}
		}, nil},
		{"watched-created", true, "workspace/didChangeWatchedFiles", func(s *drv.Server) interface{} {
			return map[string]interface{}{"changes": []interface{}{map[string]interface{}{"uri": s.URI("c.lua"), "type": 1}}}
		}, func(s *drv.Server) { os.WriteFile(filepath.Join(s.Root, "c.lua"), []byte("gshared = 3\n"), 0o644) }},
		{"watched-deleted", true, "workspace/didChangeWatchedFiles", func(s *drv.Server) interface{} {
			return map[string]interface{}{"changes": []interface{}{map[string]interface{}{"uri": s.URI("b.lua"), "type": 3}}}
		}, func(s *drv.Server) { os.Remove(filepath.Join(s.Root, "b.lua")) }},
		{"didChangeConfiguration", true, "workspace/didChangeConfiguration", func(s *drv.Server) interface{} {
			all := make([]bool, 26)
			for i := range all {
				all[i] = i != 4
			}
			return c17Settings(all)
		}, nil},
	}
}

// in-flight words: every ordered pair, and every triple request, notification, request
func raceWords() [][]int {
	ms := raceMessages()
	var out [][]int
	for a := range ms {
		for b := range ms {
			if a != b && !(ms[a].notify && ms[b].notify && a > b) {
				out = append(out, []int{a, b})
			}
		}
	}
	for a := range ms {
		if ms[a].notify {
			continue
		}
		for n := range ms {
			if !ms[n].notify {
				continue
			}
			for b := range ms {
				if !ms[b].notify && b >= a {
					out = append(out, []int{a, n, b})
				}
			}
		}
	}
	return out
}

// raceWorkloadC10 runs inside the -race binary: a real jrpc2 server (concurrency 4), the messages of one word sent
// back to back, answers awaited afterwards.
func raceWorkloadC10(i int64) {
	ms := raceMessages()
	w := raceWords()[i]
	for rep := 0; rep < 3; rep++ {
		root := drv.NewWorkspace(c10Files)
		s, err := drv.Start(root, drv.Options{InitOptions: drv.AllChecks()})
		if err != nil {
			fmt.Println("start-error:", err)
			drv.RemoveWorkspace(root)
			return
		}
		s.Open("a.lua", c10Files["a.lua"])
		var ids []int
		for _, k := range w {
			m := ms[k]
			if m.pre != nil {
				m.pre(s)
			}
			if m.notify {
				s.NotifyAsync(m.method, m.params(s))
			} else if id, err := s.SendRequest(m.method, m.params(s)); err == nil {
				ids = append(ids, id)
			}
		}
		for _, id := range ids {
			s.AwaitRaw(id)
		}
		s.Barrier()
		s.Close()
		drv.RemoveWorkspace(root)
	}
}

// raceWorkloadC09: the closed systems of C09 (pools of the three analysis passes, reference and symbol searches) plus a
// workspace with more files than pool workers, run free with the pool width pinned to 2 and 4 processors.
func raceWorkloadC09(i int64) {
	wss := c09Workspaces()
	cpus := []int{2, 4}
	cpu := cpus[i%2]
	k := int(i / 2)
	vrt.SetNumCPU(cpu)
	defer vrt.SetNumCPU(0)
	if k < len(wss) {
		for rep := 0; rep < 3; rep++ {
			c09Body(wss[k])()
		}
		return
	}
	// many files: every worker of every pool serves several files
	files := map[string]string{"f0.lua": "gq = 1\nfunction gfun0() end\nprint(gq)\n"}
	for j := 1; j < 24; j++ {
		files[fmt.Sprintf("f%d.lua", j)] = fmt.Sprintf("%sprint(gq)\nfunction gfun%d() return gq end\nlocal l%d = gfun%d\n", strings.Repeat("\n", j), j, j, j-1)
	}
	for rep := 0; rep < 3; rep++ {
		root := drv.NewWorkspace(files)
		s, err := drv.Start(root, drv.Options{InitOptions: drv.AllChecks()})
		if err != nil {
			drv.RemoveWorkspace(root)
			return
		}
		s.Open("f0.lua", files["f0.lua"])
		s.References("f0.lua", 0, 0)
		s.Rename("f0.lua", 0, 0, "zz")
		s.WsSymbols("gfun")
		s.WsSymbols("g")
		s.Completion("f0.lua", 2, 7, "")
		s.Close()
		drv.RemoveWorkspace(root)
	}
}

func raceN(kind string) int64 {
	if kind == "c10" {
		return int64(len(raceWords()))
	}
	return int64(2 * (len(c09Workspaces()) + 1))
}

// RaceWorker is the entry point of `vcheck raceworker <kind> <lo> <hi>` (only meaningful in the -race binary).
func RaceWorker(kind string, lo, hi int64) {
	for i := lo; i < hi; i++ {
		if kind == "c10" {
			raceWorkloadC10(i)
		} else {
			raceWorkloadC09(i)
		}
	}
}

type raceReport struct {
	frames [2]string // first repository frame of each access
	text   string
}

// parseRaceLog extracts the reports of Go's race detector.
func parseRaceLog(path string) []raceReport {
	f, err := os.Open(path)
	if err != nil {
		return nil
	}
	defer f.Close()
	var out []raceReport
	var cur *raceReport
	stack := -1
	sc := bufio.NewScanner(f)
	sc.Buffer(make([]byte, 1<<20), 1<<24)
	for sc.Scan() {
		l := sc.Text()
		switch {
		case strings.HasPrefix(l, "WARNING: DATA RACE"):
			cur = &raceReport{}
			stack = -1
		case l == "==================":
			if cur != nil && cur.text != "" {
				out = append(out, *cur)
			}
			cur = nil
			continue
		}
		if cur == nil {
			continue
		}
		cur.text += l + "\n"
		t := strings.TrimSpace(l)
		if (strings.HasPrefix(t, "Write at") || strings.HasPrefix(t, "Read at") || strings.HasPrefix(t, "Previous write at") || strings.HasPrefix(t, "Previous read at")) && stack < 1 {
			stack++
		} else if strings.HasPrefix(t, "Goroutine ") {
			stack = 2
		} else if stack >= 0 && stack < 2 && cur.frames[stack] == "" && strings.HasPrefix(t, "luahelper-lsp/") && !strings.Contains(t, "/vrt.") && !strings.Contains(t, "/vrt/") {
			fn := t
			if k := strings.LastIndex(fn, "("); k > 0 {
				fn = fn[:k]
			}
			cur.frames[stack] = fn
		}
	}
	return out
}

func racePassSpace(kind string, chunk int64) *core.Space {
	n := raceN(kind)
	name := "free-running-race-detector-pass"
	return &core.Space{
		Name: name, N: (n + chunk - 1) / chunk, Chunk: 1, PerCaseTimeoutS: 900, ChunkTimeoutS: 1800,
		Describe: func(i int64) interface{} {
			return map[string]interface{}{"workload": kind, "cases": []int64{i * chunk, min64((i+1)*chunk, n)}, "binary": "vcheck built with -race, goroutines run free"}
		},
		Run: func(i int64, r *core.Result) {
			lo, hi := i*chunk, min64((i+1)*chunk, n)
			exe, _ := os.Executable()
			raceExe := exe + "-race"
			if _, err := os.Stat(raceExe); err != nil {
				r.Count("harness_errors:race-instrumented binary missing ("+filepath.Base(raceExe)+")", 1)
				return
			}
			logBase := filepath.Join(drv.ScratchBase(), fmt.Sprintf("racelog-%s-%d", kind, i))
			cmd := exec.Command(raceExe, "raceworker", kind, fmt.Sprint(lo), fmt.Sprint(hi))
			cmd.Env = append(os.Environ(), "GORACE=log_path="+logBase+" halt_on_error=0 exitcode=0 history_size=3")
			done := make(chan error, 1)
			if err := cmd.Start(); err != nil {
				r.Count("harness_errors:race worker did not start", 1)
				return
			}
			go func() { done <- cmd.Wait() }()
			select {
			case err := <-done:
				if err != nil {
					r.Fail(name, i, "race-pass-worker-died", fmt.Sprintf("%s %d-%d", kind, lo, hi), map[string]interface{}{"error": err.Error(), "workload": kind, "cases": []int64{lo, hi}})
				}
			case <-time.After(14 * time.Minute):
				cmd.Process.Kill()
				r.Count("harness_errors:race worker timed out", 1)
			}
			r.Evaluated += hi - lo
			r.Nontrivial += hi - lo
			r.Transitions += 3 * (hi - lo)
			logs, _ := filepath.Glob(logBase + ".*")
			seen := map[string]bool{}
			for _, lg := range logs {
				for _, rep := range parseRaceLog(lg) {
					fr := []string{rep.frames[0], rep.frames[1]}
					if fr[0] == "" && fr[1] == "" {
						r.Count("race_reports_without_repository_frames(harness or runtime)", 1)
						continue
					}
					sort.Strings(fr)
					coreS := "data-race | " + fr[0] + " / " + fr[1]
					if seen[coreS] {
						continue
					}
					seen[coreS] = true
					r.Outcome("data-race")
					r.Fail(name, i, "data-race-reported-by-the-race-detector", coreS, map[string]interface{}{"failure_core": coreS, "workload": kind, "cases": []int64{lo, hi}, "report": rep.text})
				}
				os.Remove(lg)
			}
			if len(seen) == 0 {
				r.States += hi - lo
				r.Outcome("no-race-reported")
			}
		},
	}
}

func min64(a, b int64) int64 {
	if a < b {
		return a
	}
	return b
}
