package checks

import (
	"fmt"
	"strings"

	"verif/internal/core"
	"verif/internal/drv"
	"verif/internal/enum"
)

// C13: hover shows the right symbol and its documentation comment verbatim.

type c13Decl struct {
	name   string
	pre    string   // lines before (setup)
	line   string   // the declaring line (without comment)
	ident  string   // identifier hovered
	use    string   // a later line using it
	local  bool     // label must start with "local "
	pieces []string // substrings the label must contain, in order
	multi  bool     // supports the multi-name trailing placement
}

var c13Decls = []c13Decl{
	{"local-number", "", "local v = 1", "v", "print(v)", true, []string{"v", "1"}, true},
	{"local-string", "", `local v = "s"`, "v", "print(v)", true, []string{"v", `"s"`}, false},
	{"global-number", "", "g = 1", "g", "print(g)", false, []string{"g", "1"}, false},
	{"local-function", "", "local function f(p, q) end", "f", "f(1, 2)", true, []string{"function", "f", "(", "p", "q", ")"}, false},
	{"global-function", "", "function gf(p) end", "gf", "gf(1)", false, []string{"function", "gf", "(", "p", ")"}, false},
	{"member-function", "t = {}\n", "function t.m(p) end", "m", "t.m(1)", false, []string{"function", "m", "(", "p", ")"}, false},
	{"table-member", "", "t = {k = 1}", "k", "print(t.k)", false, []string{"k", "1"}, false},
	{"vararg-only-function", "", "function gv(...) end", "gv", "gv(1)", false, []string{"function", "gv", "(", "...", ")"}, false},
	{"local-function-with-vararg", "", "local function lv(p, ...) end", "lv", "lv(1)", true, []string{"function", "lv", "(", "p", "...", ")"}, false},
	{"member-vararg-function", "t = {}\n", "function t.mv(...) end", "mv", "t.mv(1)", false, []string{"function", "mv", "(", "...", ")"}, false},
	// the value is another, commented, variable: the declaration's own comment must win
	{"local-alias-of-a-commented-local", "local base = 10 -- BASEDOC\n", "local v = base", "v", "print(v)", true, []string{"v"}, false},
	{"global-alias-of-a-commented-local", "local base = 10 -- BASEDOC\n", "gl = base", "gl", "print(gl)", false, []string{"gl"}, false},
	// a member of a table constructor that a function returns (use: lines that close the constructor, then the hovered use)
	// the use sits on the closing line of the block that declares the (shadowing) local
	{"shadowing-local-used-on-the-closing-line-of-its-block", "local v = 0 -- OUTERDOC\ndo\n", "local v = 1", "v", "print(v) end", true, []string{"v", "1"}, false},
	{"member-of-a-returned-table", "local function make()\n  return {\n", "    size = 1,", "size", "  }\nend\nlocal obj = make()\nprint(obj.size)", false, []string{"size", "1"}, false},
}

var c13Placements = []string{"none", "trailing", "above-1", "above-2", "above-triple-dash", "above-separated-by-blank", "trailing-multi-name", "above-1-directly-below-a-trailing-comment"}

var c13Alpha = []string{"a", " ", "é", "я", "中", "😀", "-", "*"}

func c13Trim(s string) string { return strings.Trim(s, " -*\t") }

type c13Case struct {
	text     string
	declLine int
	declCol  int
	useLine  int
	useCol   int
	want     []string // expected documentation lines (trimmed); nil = none expected
	judgeDoc bool
	d        c13Decl
	place    string
	T        string
	prevLine int // >0: line of "local first = 0 -- trail of first" whose hover must show exactly that comment
}

func c13Build(d c13Decl, place string, T string) (c13Case, bool) {
	c := c13Case{d: d, place: place, T: T, judgeDoc: true}
	var lines []string
	if d.pre != "" {
		lines = append(lines, strings.Split(strings.TrimSuffix(d.pre, "\n"), "\n")...)
	}
	inTable := d.name == "member-of-a-returned-table"
	if inTable {
		if place == "above-1-directly-below-a-trailing-comment" || place == "trailing-multi-name" {
			return c, false
		}
		lines = append(lines, "    first = 0,", "")
	} else {
		lines = append(lines, "local first = 0", "")
	}
	decl := d.line
	switch place {
	case "none":
		if T != "" {
			return c, false
		}
	case "trailing":
		decl += " -- " + T
		c.want = []string{c13Trim(T)}
	case "above-1":
		lines = append(lines, "-- "+T)
		c.want = []string{c13Trim(T)}
	case "above-2":
		lines = append(lines, "-- "+T, "-- second line")
		c.want = []string{c13Trim(T), "second line"}
	case "above-triple-dash":
		lines = append(lines, "--- "+T)
		c.want = []string{c13Trim(T)}
	case "above-separated-by-blank":
		lines = append(lines, "-- "+T, "")
		c.want = nil
	case "above-1-directly-below-a-trailing-comment":
		// the previous declaration carries its own trailing comment on the line directly above the block
		lines[len(lines)-2] = "local first = 0 -- trail of first"
		lines = lines[:len(lines)-1]
		lines = append(lines, "-- "+T)
		c.want = []string{c13Trim(T)}
		c.prevLine = len(lines) - 2
	case "trailing-multi-name":
		if !d.multi {
			return c, false
		}
		decl = "local v, w = 1, 2 -- " + T
		c.want = []string{c13Trim(T)}
	}
	if place != "none" && place != "above-separated-by-blank" && c13Trim(T) == "" {
		c.judgeDoc = false // a comment that is empty after the documented clean-up
	}
	if strings.HasPrefix(strings.TrimLeft(T, " "), "-") && (place == "trailing" || strings.HasPrefix(place, "above") || place == "trailing-multi-name") {
		// "-- -x" / "-- --x": whether the extra dashes belong to the marker is not fixed
		c.judgeDoc = c.judgeDoc && !strings.HasPrefix(strings.TrimLeft(T, " "), "-")
	}
	if strings.Contains(T, "[") {
		c.judgeDoc = false
	}
	if strings.Contains(d.name, "alias-of-a-commented") && c.want == nil {
		c.judgeDoc = false // without a comment of its own the alias may show the comment of what it names
	}
	c.declLine = len(lines)
	c.declCol = strings.Index(decl, d.ident)
	if j := strings.Index(decl, " "+d.ident+"("); j >= 0 {
		c.declCol = j + 1
	}
	if d.name == "member-function" {
		c.declCol = strings.Index(decl, ".m") + 1
	}
	if d.name == "table-member" {
		c.declCol = strings.Index(decl, "k =")
	}
	lines = append(lines, decl, "")
	useLines := strings.Split(d.use, "\n")
	lines = append(lines, useLines[:len(useLines)-1]...)
	c.useLine = len(lines)
	c.useCol = strings.LastIndex(useLines[len(useLines)-1], d.ident)
	lines = append(lines, useLines[len(useLines)-1])
	c.text = strings.Join(lines, "\n") + "\n"
	return c, true
}

// c13Doc extracts label and documentation lines from a hover value.
func c13Parse(h string) (label string, doc []string) {
	label = h
	rest := ""
	if i := strings.Index(h, "\n```\n---\n"); i >= 0 {
		label = strings.TrimPrefix(h[:i], "```lua\n")
		rest = h[i+len("\n```\n---\n"):]
	}
	if j := strings.LastIndex(rest, "\n\r"); j >= 0 {
		rest = rest[:j]
	} else if strings.HasSuffix(rest, "m.lua") {
		rest = strings.TrimSuffix(rest, "m.lua")
	}
	for _, l := range strings.Split(rest, "\n") {
		l = strings.TrimRight(l, " \r")
		if c13Trim(l) == "" {
			continue
		}
		doc = append(doc, c13Trim(l))
	}
	return
}

func c13Space(L int) *core.Space {
	k := len(c13Alpha)
	nT := enum.CountStrings(k, L)
	per := int64(len(c13Decls)*len(c13Placements)) * nT
	at := func(i int64) (c13Case, bool) {
		t := enum.Join(c13Alpha, enum.StringAt(k, i%nT), "")
		j := i / nT
		return c13Build(c13Decls[j/int64(len(c13Placements))], c13Placements[j%int64(len(c13Placements))], t)
	}
	name := fmt.Sprintf("declarations-x-placements-x-comments<=%d", L)
	return &core.Space{
		Name: name, N: per, Chunk: 300, RecycleEvery: 30,
		Describe: func(i int64) interface{} {
			c, ok := at(i)
			return map[string]interface{}{"m.lua": c.text, "valid_combination": ok, "placement": c.place}
		},
		Run: func(i int64, r *core.Result) {
			c, ok := at(i)
			if !ok {
				r.Count("combinations_not_applicable", 1)
				return
			}
			r.Evaluated++
			root := drv.NewWorkspace(map[string]string{"m.lua": c.text})
			defer drv.RemoveWorkspace(root)
			s, err := drv.Start(root, drv.Options{})
			if err != nil {
				r.Fail(name, i, "server-start-failed", c.text, map[string]interface{}{"error": err.Error()})
				return
			}
			defer s.Close()
			s.Open("m.lua", c.text)
			nonASCII := false
			for _, ch := range c.T {
				if ch > 127 {
					nonASCII = true
				}
			}
			if nonASCII {
				r.Nontrivial++
			}
			if i%397 == 0 {
				h, _ := s.Hover("m.lua", c.declLine, c.declCol)
				r.Sample(map[string]interface{}{"m.lua": c.text, "hover_at": fmt.Sprintf("%d:%d", c.declLine, c.declCol), "hover": h})
			}
			for _, pos := range [][2]int{{c.declLine, c.declCol}, {c.useLine, c.useCol}} {
				if c.d.name == "member-of-a-returned-table" && pos[0] == c.declLine {
					continue // the key inside an anonymous constructor is not itself a hover target; the use is
				}
				h, err := s.Hover("m.lua", pos[0], pos[1])
				r.Transitions++
				r.States++
				where := "declaration"
				if pos[0] == c.useLine {
					where = "use"
				}
				fail := func(sig string, det map[string]interface{}) {
					r.Outcome(sig)
					coreS := fmt.Sprintf("%s | %s | %s | comment %q | at %s", sig, c.d.name, c.place, c.T, where)
					det["failure_core"] = coreS
					det["m.lua"] = c.text
					det["position"] = fmt.Sprintf("%d:%d", pos[0], pos[1])
					det["hover"] = h
					r.Fail(name, i, sig, coreS, det)
				}
				if err != nil {
					fail("hover-request-error", map[string]interface{}{"error": err.Error()})
					continue
				}
				if h == "" {
					fail("no-hover-for-defined-identifier:"+c.d.name, map[string]interface{}{})
					continue
				}
				label, doc := c13Parse(h)
				// label: identifier, local/global marker, what the declaration says
				idx := 0
				okLabel := true
				for _, p := range c.d.pieces {
					j := strings.Index(label[idx:], p)
					if j < 0 {
						okLabel = false
						break
					}
					idx += j + len(p)
				}
				decl := c.d
				if c.place == "trailing-multi-name" {
					okLabel = strings.Contains(label, "v") && strings.Contains(label, "1")
				}
				if !okLabel {
					fail("label-does-not-say-what-the-declaration-says:"+decl.name, map[string]interface{}{"label": label, "required_in_order": decl.pieces})
				} else if strings.HasPrefix(strings.TrimSpace(label), "local ") != decl.local {
					fail("label-local-marker-wrong:"+decl.name, map[string]interface{}{"label": label})
				}
				if !c.judgeDoc {
					r.Count("documentation_not_judged", 1)
					continue
				}
				wantS := strings.Join(c.want, "\n")
				gotS := strings.Join(doc, "\n")
				if wantS == gotS {
					r.Outcome("documentation-verbatim")
					continue
				}
				kind := "documentation-differs"
				switch {
				case len(c.want) == 0:
					kind = "comment-attached-that-is-not-adjacent"
				case len(doc) == 0:
					kind = "documentation-missing"
				case nonASCII:
					kind = "non-ascii-documentation-altered"
				}
				fail(kind+":"+c.place, map[string]interface{}{"expected_documentation": c.want, "shown_documentation": doc})
			}
			if c.prevLine > 0 {
				h, err := s.Hover("m.lua", c.prevLine, 6)
				r.Transitions++
				r.States++
				if err == nil {
					_, doc := c13Parse(h)
					if strings.Join(doc, "\n") != "trail of first" {
						sig := "neighbour-declaration-shows-foreign-comment:" + c.place
						coreS := fmt.Sprintf("%s | %s | comment %q", sig, c.d.name, c.T)
						r.Outcome(sig)
						r.Fail(name, i, sig, coreS, map[string]interface{}{"failure_core": coreS, "m.lua": c.text, "hover_of_first": h, "expected_documentation": []string{"trail of first"}})
					}
				}
			}
			// the same after an unsaved edit that inserts a line at the top and rewords the comment
			if c.judgeDoc && len(c.want) > 0 && c.T != "" && i%3 == 0 {
				old := c.text
				reworded := strings.Replace(old, c.T, "old wording", 1)
				if reworded != old && strings.Count(old, c.T) == 1 {
					s.ChangeFull("m.lua", reworded)
					s.ChangeFull("m.lua", "-- inserted\n"+old)
					hl, hc := c.declLine+1, c.declCol
					if c.d.name == "member-of-a-returned-table" {
						hl, hc = c.useLine+1, c.useCol
					}
					h, err := s.Hover("m.lua", hl, hc)
					r.Transitions += 3
					r.States++
					if err == nil {
						_, doc := c13Parse(h)
						if strings.Join(doc, "\n") != strings.Join(c.want, "\n") {
							sig := "documentation-stale-after-unsaved-edit:" + c.place
							coreS := fmt.Sprintf("%s | %s | comment %q", sig, c.d.name, c.T)
							r.Outcome(sig)
							r.Fail(name, i, sig, coreS, map[string]interface{}{"failure_core": coreS, "buffer": "-- inserted\n" + old, "hover": h, "expected_documentation": c.want})
						}
					}
				}
			}
		},
	}
}

func init() {
	core.Register(&core.Check{
		ID:        "C13",
		Technique: "bounded-exhaustive enumeration (declaration forms x comment placements x all comment strings up to a length over an 8-symbol alphabet of ASCII, 2-, 3- and 4-byte characters) on the real server against the documented attachment rule",
		Rule: "14 declaration forms (a shadowing local used on the closing line of its block, a member of a table constructor returned by a function, functions with a vararg parameter list, aliases of a commented variable included) x 7 comment placements (none, trailing, one line above, two-line block, --- line, block separated by a blank line, trailing on a multi-name local) x every comment text of <=2 (quick) / <=3 (thorough) symbols over {a, space, é, я, 中, 😀, -, *}; hover at the declaration and at a use. " +
			"The label must contain the identifier and what the declaration says (local marker, literal, parameter names in order); the documentation must be the attached comment (trailing, else block directly above; never a block separated by a blank line), byte-identical after the clean-up of leading/trailing dashes, stars and blanks. " +
			"states = hovers judged; non-trivial = cases whose comment contains non-ASCII characters",
		Assumptions: []string{"comments that are empty after clean-up, that start with an extra dash, or contain '[' are not judged for documentation", "documentation lines are compared after trimming blanks, dashes and stars at both ends"},
		Flavour:     "prod+overlay", QuickBudgetS: 120, ThoroughBudgetS: 900,
		Spaces: func(tier string) []*core.Space {
			if tier == "thorough" {
				return []*core.Space{c13Space(3)}
			}
			return []*core.Space{c13Space(2)}
		},
	})
}
