package checks

import (
	"fmt"
	"path/filepath"
	"strings"

	"verif/internal/core"
	"verif/internal/drv"
	"verif/internal/enum"
	"verif/internal/luaref"
	"verif/internal/textref"
)

// C19: symbol outlines list every declaration at its real place, findable by name.

var c19Stmts = []string{
	"local a", "local a = 1", "local b = a", "a = 1", "b = 2", "local a, b = 1, 2",
	"function a() end", "function b(x) end", "local function a() end", "local function b(x) return x end",
	"t = {}", "local t = {}", "t.f = function() end", "function t.f() end", "function t:m() end", "function t.k.g() end",
	"local t = {k = {f = function() end}}", "t = {f = function() end, x = 1}", "local c = function() end", "d = function(x) end",
	"---@class C\nlocal c = {}", "do local a = 1 end", "if a then b = 1 end",
	"function outer(p)\n  if p then\n  end\n  if not p then\n  end\nend", "do\n  local function hidden1() end\n  hidden1()\nend",
	"function outer2()\n  local function hidden2() end\n  return hidden2\nend", "if a then\n  function gnested() end\nend",
	"local function lo(p)\n  if p then\n    p = 1\n  end\n  while p do\n    p = nil\n  end\n  return p\nend",
	"ta = {}\nfunction ta.f1() end\nfunction ta:m1() end", "tb = {}\nfunction tb.g1() end\nfunction tb.g2() end",
	"local alpha, beta <const> = 4, 5", "local gamma <const>, delta <close> = 6, nil",
	"zs = \"a\\z\n   b\"\nfunction afterz() end",
}

type c19Decl struct {
	name  string // declared identifier
	sp    luaref.Span
	kind  string // local | global | function | member-function
	query string // exact name for workspace/symbol ("" = not queried)
}

// c19Decls lists what the outline must contain: top-level locals, globals, functions (members included).
func c19Decls(text string, chunk *luaref.Block, b *luaref.Binding) []c19Decl {
	var out []c19Decl
	isLocalAt := func(start int) bool {
		for _, o := range b.Occs {
			if o.Start == start && o.Decl >= 0 {
				return true
			}
		}
		return false
	}
	seenGlobal := map[string]bool{}
	for _, st := range chunk.Stats {
		switch s := st.(type) {
		case *luaref.LocalStat:
			for _, n := range s.Names {
				out = append(out, c19Decl{n.Name, n.Span, "local", ""})
			}
		case *luaref.LocalFuncStat:
			out = append(out, c19Decl{s.Name.Name, s.Name.Span, "function", s.Name.Name})
		case *luaref.FuncStat:
			last := s.Path[len(s.Path)-1]
			if s.Method != nil {
				last = *s.Method
			}
			k := "function"
			if len(s.Path) > 1 || s.Method != nil {
				k = "member-function"
			} else if isLocalAt(last.Start) || seenGlobal[last.Name] {
				continue // an assignment to an existing variable, not a new declaration
			} else {
				seenGlobal[last.Name] = true
			}
			out = append(out, c19Decl{last.Name, last.Span, k, last.Name})
		case *luaref.AssignStat:
			for i, t := range s.Targets {
				switch x := t.(type) {
				case *luaref.NameExpr:
					if !isLocalAt(x.Start) && !seenGlobal[x.Name] {
						seenGlobal[x.Name] = true
						q := x.Name
						out = append(out, c19Decl{x.Name, x.Span, "global", q})
					}
				case *luaref.IndexExpr:
					if i < len(s.Exprs) {
						if _, isFn := s.Exprs[i].(*luaref.FuncExpr); isFn && x.Dot {
							k := x.Key.(*luaref.StringExpr)
							out = append(out, c19Decl{k.Val, k.Span, "member-function", k.Val})
						}
					}
				}
			}
		}
	}
	// functions declared in nested blocks: must be findable by name (the outline lists them as children, not judged here)
	var walk func(b *luaref.Block, depth int)
	walk = func(b *luaref.Block, depth int) {
		for _, st := range b.Stats {
			switch s := st.(type) {
			case *luaref.LocalFuncStat:
				if depth > 0 {
					out = append(out, c19Decl{s.Name.Name, s.Name.Span, "nested-local-function", s.Name.Name})
				}
				walk(s.Func.Body, depth+1)
			case *luaref.FuncStat:
				if depth > 0 && len(s.Path) == 1 && s.Method == nil && !isLocalAt(s.Path[0].Start) && !seenGlobal[s.Path[0].Name] {
					seenGlobal[s.Path[0].Name] = true
					out = append(out, c19Decl{s.Path[0].Name, s.Path[0].Span, "nested-global-function", s.Path[0].Name})
				}
				walk(s.Func.Body, depth+1)
			case *luaref.DoStat:
				walk(s.Body, depth+1)
			case *luaref.IfStat:
				for _, bl := range s.Blocks {
					walk(bl, depth+1)
				}
				if s.Else != nil {
					walk(s.Else, depth+1)
				}
			case *luaref.WhileStat:
				walk(s.Body, depth+1)
			}
		}
	}
	walk(chunk, 0)
	return out
}

func flattenSyms(ds []drv.DocSymbol, out *[]drv.DocSymbol) {
	for _, d := range ds {
		*out = append(*out, d)
		flattenSyms(d.Children, out)
	}
}

func rangeWellFormed(text string, r drv.Range) bool {
	so, c1, ok1 := textref.Offset(text, textref.Pos{Line: r.Start.Line, Char: r.Start.Character})
	eo, c2, ok2 := textref.Offset(text, textref.Pos{Line: r.End.Line, Char: r.End.Character})
	return ok1 && ok2 && !c1 && !c2 && so <= eo
}

func rangeContains(outer, inner drv.Range) bool {
	le := func(a, b drv.Pos) bool { return a.Line < b.Line || a.Line == b.Line && a.Character <= b.Character }
	return le(outer.Start, inner.Start) && le(inner.End, outer.End)
}

func c19Space(L int) *core.Space {
	k := len(c19Stmts)
	n := enum.CountStrings(k, L) - 1 // without the empty file
	at := func(i int64) string {
		ix := enum.StringAt(k, i+1)
		return enum.Join(c19Stmts, ix, "\n") + "\n"
	}
	name := fmt.Sprintf("files<=%d-top-level-statements", L)
	return &core.Space{
		Name: name, N: n, Chunk: 300, RecycleEvery: 30,
		Describe: func(i int64) interface{} {
			return map[string]interface{}{"m.lua": at(i), "o.lua": "function og() end\nov = 1\n"}
		},
		Run: func(i int64, r *core.Result) {
			text := at(i)
			r.Evaluated++
			p := luaref.Parse(text)
			if p.Err != nil {
				r.Fail(name, i, "generator-program-not-valid", text, map[string]interface{}{"text": text})
				return
			}
			b := luaref.Bind(p.Chunk)
			files := map[string]string{"m.lua": text, "o.lua": "function og() end\nov = 1\n"}
			root := drv.NewWorkspace(files)
			defer drv.RemoveWorkspace(root)
			s, err := drv.Start(root, drv.Options{})
			if err != nil {
				r.Fail(name, i, "server-start-failed", text, map[string]interface{}{"error": err.Error()})
				return
			}
			defer s.Close()
			s.Open("m.lua", text)
			syms, err := s.DocSymbols("m.lua")
			r.Transitions += 3
			if err != nil {
				r.Fail(name, i, "documentSymbol-request-error", text, map[string]interface{}{"error": err.Error()})
				return
			}
			var flat []drv.DocSymbol
			flattenSyms(syms, &flat)
			decls := c19Decls(text, p.Chunk, b)
			if len(decls) > 1 {
				r.Nontrivial++
			}
			if i%997 == 0 {
				var names []string
				for _, f := range flat {
					names = append(names, f.Name)
				}
				r.Sample(map[string]interface{}{"m.lua": text, "outline": names})
			}
			fail := func(sig string, d c19Decl, det map[string]interface{}) {
				r.Outcome(sig)
				// the core names the whole (short) file: the same declaration line failing in another file is another finding
				coreS := fmt.Sprintf("%s | %s | in %q", sig, lineAt(text, rng(text, d.sp)), text)
				det["failure_core"] = coreS
				det["m.lua"] = text
				det["declaration"] = fmt.Sprintf("%s %s at %s", d.kind, d.name, rng(text, d.sp))
				r.Fail(name, i, sig, coreS, det)
			}
			for _, f := range flat {
				if !rangeWellFormed(text, f.Range) || !rangeWellFormed(text, f.SelectionRange) {
					r.Outcome("malformed-range")
					coreS := fmt.Sprintf("outline-entry-range-outside-document | %s %s | in %q", f.Name, f.Range, text)
					r.Fail(name, i, "outline-entry-range-outside-document", coreS, map[string]interface{}{"failure_core": coreS, "m.lua": text, "entry": f.Name, "range": f.Range.String()})
				}
			}
			for _, d := range decls {
				r.States++
				dr := rng(text, d.sp)
				found := false
				for _, f := range flat {
					if rangeContains(f.Range, dr) && strings.Contains(f.Name, d.name) {
						found = true
					}
				}
				if !found && !strings.HasPrefix(d.kind, "nested-") {
					var names []string
					for _, f := range flat {
						names = append(names, f.Name+"@"+f.Range.String())
					}
					fail("declaration-missing-from-outline:"+d.kind, d, map[string]interface{}{"outline": names})
				} else if found {
					r.Outcome("in-outline:" + d.kind)
				}
				if d.query != "" {
					ws, err := s.WsSymbols(d.query)
					r.Transitions++
					if err != nil {
						fail("workspace-symbol-request-error", d, map[string]interface{}{"error": err.Error()})
						continue
					}
					hit := false
					var got []string
					for _, w := range ws {
						got = append(got, fmt.Sprintf("%s@%s:%s", w.Name, s.Rel(w.Location.URI), w.Location.Range))
						if s.Rel(w.Location.URI) == "m.lua" && rangeContains(w.Location.Range, dr) {
							hit = true
						}
					}
					if !hit {
						fail("workspace-symbol-does-not-find-declaration:"+d.kind, d, map[string]interface{}{"query": d.query, "answer": got})
					} else {
						r.Outcome("found-by-name:" + d.kind)
					}
				}
			}
			// the outline follows the unsaved buffer: a declaration typed at the top (didChange, no save) must appear,
			// and every earlier declaration must be listed one line further down
			buf := "local typedNow = 1\n" + text
			s.ChangeFull("m.lua", buf)
			if syms2, err := s.DocSymbols("m.lua"); err == nil {
				r.Transitions += 2
				var flat2 []drv.DocSymbol
				flattenSyms(syms2, &flat2)
				p2 := luaref.Parse(buf)
				if p2.Err == nil {
					var oldTop []c19Decl
					for _, od := range decls {
						if !strings.HasPrefix(od.kind, "nested-") {
							oldTop = append(oldTop, od)
						}
					}
					k := -1
					for _, d := range c19Decls(buf, p2.Chunk, luaref.Bind(p2.Chunk)) {
						if strings.HasPrefix(d.kind, "nested-") {
							continue
						}
						k++
						dr := rng(buf, d.sp)
						found := false
						for _, f := range flat2 {
							if rangeContains(f.Range, dr) && strings.Contains(f.Name, d.name) {
								found = true
							}
						}
						// only declarations that the saved-file outline listed correctly are required after the edit
						// (the k-th declaration of the buffer is the (k-1)-th of the saved text)
						wasOK := k == 0
						if k >= 1 && k-1 < len(oldTop) && oldTop[k-1].name == d.name {
							odr := rng(text, oldTop[k-1].sp)
							for _, f := range flat {
								if rangeContains(f.Range, odr) && strings.Contains(f.Name, d.name) {
									wasOK = true
								}
							}
						}
						if wasOK && !found {
							sig := "outline-does-not-follow-unsaved-edit:" + d.kind
							coreS := fmt.Sprintf("%s | %s | in %q", sig, lineAt(buf, dr), buf)
							r.Outcome(sig)
							r.Fail(name, i, sig, coreS, map[string]interface{}{"failure_core": coreS, "buffer": buf, "declaration": fmt.Sprintf("%s %s at %s", d.kind, d.name, dr)})
							break
						}
					}
				}
			}
			// the other file's declarations by name
			for _, q := range []string{"og", "ov"} {
				ws, err := s.WsSymbols(q)
				r.Transitions++
				if err != nil {
					continue
				}
				hit := false
				for _, w := range ws {
					if s.Rel(w.Location.URI) == "o.lua" {
						hit = true
					}
				}
				if !hit {
					coreS := "workspace-symbol-does-not-find-other-file-declaration | " + q
					r.Fail(name, i, "workspace-symbol-does-not-find-other-file-declaration", coreS, map[string]interface{}{"failure_core": coreS, "query": q, "m.lua": text})
				}
			}
		},
	}
}

func init() {
	core.Register(&core.Check{
		ID:        "C19",
		Technique: "bounded-exhaustive file enumeration (all sequences of top-level statements of a declaration alphabet up to the length bound) on the real server against the declaration list of the reference parser",
		Rule: "files: every sequence of <=2 (quick) / <=3 (thorough) statements from 23 declaration forms (locals, globals, functions, t.f / t:m / nested-table functions, annotation class, nested blocks); a second file declares og, ov. " +
			"Every top-level local, global and function (members included) must have a documentSymbol entry (children searched) with a range inside the file that contains the declaring identifier and a name containing it; workspace/symbol with the exact name of every global/function must return an entry located at the declaration. " +
			"a folder added later through workspace/didChangeWorkspaceFolders (6 relations between its path and the root's: unrelated, string prefix either way, same base name, prefix of an inner segment) must answer for its unopened files whatever a single-root workspace answers for them. states = declarations judged; non-trivial = files with >=2 declarations",
		Assumptions: []string{"an outline entry matches a declaration if its range contains the declaring identifier and its name contains the identifier", "locals are not queried through workspace/symbol"},
		Flavour:     "prod+overlay", QuickBudgetS: 120, ThoroughBudgetS: 900,
		Spaces: func(tier string) []*core.Space {
			if tier == "thorough" {
				return []*core.Space{c19Space(3), c19LargeSpace(), c19TwinSpace(), c19AddedFolderSpace()}
			}
			return []*core.Space{c19Space(2), c19LargeSpace(), c19TwinSpace(), c19AddedFolderSpace()}
		},
	})
}

// files with more symbols than the per-file cut of workspace/symbol (200): the exact name of every function must still
// be found at its declaration
func c19LargeSpace() *core.Space {
	sizes := []int{150, 199, 200, 201, 250, 400}
	name := "files-with-more-symbols-than-the-result-cut"
	build := func(n int) string {
		var sb strings.Builder
		for k := 1; k <= n; k++ {
			fmt.Fprintf(&sb, "function gfun%03d() end\n", k)
		}
		return sb.String()
	}
	return &core.Space{
		Name: name, N: int64(len(sizes)), Chunk: 1, RecycleEvery: 6,
		Describe: func(i int64) interface{} {
			return map[string]interface{}{"m.lua": fmt.Sprintf("%d lines: function gfun001() end ... function gfun%03d() end", sizes[i], sizes[i])}
		},
		Run: func(i int64, r *core.Result) {
			n := sizes[i]
			text := build(n)
			r.Evaluated++
			r.Nontrivial++
			root := drv.NewWorkspace(map[string]string{"m.lua": text, "o.lua": "function og() end\nov = 1\n"})
			defer drv.RemoveWorkspace(root)
			s, err := drv.Start(root, drv.Options{})
			if err != nil {
				r.Fail(name, i, "server-start-failed", fmt.Sprint(n), map[string]interface{}{"error": err.Error()})
				return
			}
			defer s.Close()
			s.Open("m.lua", text)
			for k := 1; k <= n; k++ {
				q := fmt.Sprintf("gfun%03d", k)
				ws, err := s.WsSymbols(q)
				r.Transitions++
				if err != nil {
					continue
				}
				r.States++
				hit := false
				for _, w := range ws {
					if w.Name == q && s.Rel(w.Location.URI) == "m.lua" && w.Location.Range.Start.Line == k-1 {
						hit = true
					}
				}
				if !hit {
					sig := "exact-name-not-found-in-a-large-file"
					coreS := fmt.Sprintf("%s | %d functions", sig, n)
					r.Outcome(sig)
					r.Fail(name, i, sig, coreS, map[string]interface{}{"failure_core": coreS, "functions_in_file": n, "query": q, "answers": len(ws)})
					return
				}
			}
			r.Outcome("every-exact-name-found")
		},
	}
}

// the same declarations at the same positions in two files: a query by name must answer for both files alike
func c19TwinSpace() *core.Space {
	name := "same-declarations-at-the-same-place-in-two-files"
	return &core.Space{
		Name: name, N: int64(len(c19Stmts)), Chunk: 10, RecycleEvery: 10,
		Describe: func(i int64) interface{} {
			return map[string]interface{}{"m.lua": c19Stmts[i] + "\n", "p.lua": c19Stmts[i] + "\n"}
		},
		Run: func(i int64, r *core.Result) {
			text := c19Stmts[i] + "\n"
			r.Evaluated++
			p := luaref.Parse(text)
			if p.Err != nil {
				return
			}
			r.Nontrivial++
			b := luaref.Bind(p.Chunk)
			root := drv.NewWorkspace(map[string]string{"m.lua": text, "p.lua": text})
			defer drv.RemoveWorkspace(root)
			s, err := drv.Start(root, drv.Options{})
			if err != nil {
				r.Fail(name, i, "server-start-failed", text, map[string]interface{}{"error": err.Error()})
				return
			}
			defer s.Close()
			s.Open("m.lua", text)
			s.Open("p.lua", text)
			for _, d := range c19Decls(text, p.Chunk, b) {
				if d.query == "" {
					continue
				}
				ws, err := s.WsSymbols(d.query)
				r.Transitions++
				if err != nil {
					continue
				}
				r.States++
				dr := rng(text, d.sp)
				hits := map[string]int{}
				for _, w := range ws {
					if rangeContains(w.Location.Range, dr) {
						hits[s.Rel(w.Location.URI)]++
					}
				}
				if hits["m.lua"] != hits["p.lua"] {
					sig := "twin-declarations-answered-for-one-file-only:" + d.kind
					coreS := fmt.Sprintf("%s | %s | in %q", sig, lineAt(text, dr), text)
					r.Outcome(sig)
					r.Fail(name, i, sig, coreS, map[string]interface{}{"failure_core": coreS, "text_of_both_files": text, "query": d.query, "entries_at_the_declaration": hits})
				} else {
					r.Outcome("twins-answered-alike")
				}
			}
		},
	}
}

// declarations in a workspace folder that joins the workspace later (workspace/didChangeWorkspaceFolders): the files of
// the added folder are never opened; a query by name must still answer at the declaration. The folder's path is related
// to the root's in every way a path comparison can get wrong: unrelated sibling, sibling whose path is a string prefix of
// the root's, sibling whose path has the root's as a string prefix, a sibling with the same name in another directory.
var c19FolderPairs = [][2]string{
	{"game", "tools"},            // unrelated sibling
	{"game_server", "game"},      // the added path is a string prefix of the root's
	{"game", "game_server"},      // the root's path is a string prefix of the added one
	{"a/game", "b/game"},         // same base name elsewhere
	{"game", "game.lua.d"},       // prefix + a name that looks like a file
	{"deep/game/src", "deep/ga"}, // prefix of an inner segment
}

func c19AddedFolderSpace() *core.Space {
	name := "declarations-in-a-workspace-folder-added-later"
	np := int64(len(c19FolderPairs))
	return &core.Space{
		Name: name, N: int64(len(c19Stmts)) * np, Chunk: 20, RecycleEvery: 10,
		Describe: func(i int64) interface{} {
			pr := c19FolderPairs[i%np]
			return map[string]interface{}{"root": pr[0], "added_folder": pr[1], pr[0] + "/m.lua": "local unrelated = 1\nprint(unrelated)\n", pr[1] + "/p.lua": c19Stmts[i/np] + "\n"}
		},
		Run: func(i int64, r *core.Result) {
			pr := c19FolderPairs[i%np]
			text := c19Stmts[i/np] + "\n"
			r.Evaluated++
			p := luaref.Parse(text)
			if p.Err != nil {
				return
			}
			r.Nontrivial++
			b := luaref.Bind(p.Chunk)
			// reference view: the same p.lua as an unopened file of a plain single-root workspace (that server is closed
			// before the next one starts). What is not found there either belongs to the first space of this check.
			decls := c19Decls(text, p.Chunk, b)
			inRoot := map[int]bool{}
			{
				ref := drv.NewWorkspace(map[string]string{"m.lua": "local unrelated = 1\nprint(unrelated)\n", "p.lua": text})
				s0, err := drv.Start(ref, drv.Options{})
				if err != nil {
					drv.RemoveWorkspace(ref)
					r.Fail(name, i, "server-start-failed", text, map[string]interface{}{"error": err.Error()})
					return
				}
				s0.Open("m.lua", "local unrelated = 1\nprint(unrelated)\n")
				for k, d := range decls {
					if d.query == "" {
						continue
					}
					ws, err := s0.WsSymbols(d.query)
					r.Transitions++
					if err != nil {
						continue
					}
					dr := rng(text, d.sp)
					for _, w := range ws {
						if s0.Rel(w.Location.URI) == "p.lua" && rangeContains(w.Location.Range, dr) {
							inRoot[k] = true
						}
					}
				}
				s0.Close()
				drv.RemoveWorkspace(ref)
			}
			base := drv.NewWorkspace(map[string]string{pr[0] + "/m.lua": "local unrelated = 1\nprint(unrelated)\n", pr[1] + "/p.lua": text})
			defer drv.RemoveWorkspace(base)
			root := filepath.Join(base, pr[0])
			added := filepath.Join(base, pr[1])
			s, err := drv.Start(root, drv.Options{})
			if err != nil {
				r.Fail(name, i, "server-start-failed", text, map[string]interface{}{"error": err.Error()})
				return
			}
			defer s.Close()
			s.Open("m.lua", "local unrelated = 1\nprint(unrelated)\n")
			ev := map[string]interface{}{"event": map[string]interface{}{"added": []interface{}{map[string]interface{}{"uri": "file://" + added, "name": filepath.Base(added)}}, "removed": []interface{}{}}}
			if err := s.Notify("workspace/didChangeWorkspaceFolders", ev); err != nil {
				r.Fail(name, i, "workspace-folder-notification-failed", pr[0]+" + "+pr[1], map[string]interface{}{"error": err.Error()})
				return
			}
			r.Transitions++
			for k, d := range decls {
				if d.query == "" {
					continue
				}
				ws, err := s.WsSymbols(d.query)
				r.Transitions++
				if err != nil {
					continue
				}
				r.States++
				dr := rng(text, d.sp)
				hit := !inRoot[k]
				if hit {
					r.Outcome("not-found-in-a-single-root-workspace-either")
					continue
				}
				for _, w := range ws {
					if strings.TrimPrefix(string(w.Location.URI), "file://") == filepath.Join(added, "p.lua") && rangeContains(w.Location.Range, dr) {
						hit = true
					}
				}
				if !hit {
					sig := "declaration-found-in-a-single-root-workspace-but-not-in-an-added-folder:" + d.kind
					coreS := fmt.Sprintf("%s | root %s + folder %s | %s | in %q", sig, pr[0], pr[1], lineAt(text, dr), text)
					r.Outcome(sig)
					r.Fail(name, i, sig, coreS, map[string]interface{}{"failure_core": coreS, "root": pr[0], "added_folder": pr[1], "p.lua": text, "query": d.query, "answer": ws})
				} else {
					r.Outcome("found-in-the-added-folder")
				}
			}
		},
	}
}
