package checks

import (
	"sort"

	"verif/internal/core"
	"verif/internal/drv"
	"verif/internal/luaref"
)

// Object-style programs: tables with members, colon methods, self (also inside closures nested in a method), globals
// and members assigned from locals, a module table returned and required. The four relations are metamorphic, so they
// are judged at EVERY identifier token, field names and method names included (the generated spaces and the testdata
// sweep only visit variable occurrences).

var c12ObjectPrograms = []map[string]string{
	{"m.lua": "local Cls = {}\nCls.total = 0\nfunction Cls:add(n)\n  self.total = self.total + n\n  local function again()\n    return self.total\n  end\n  return again\nend\nfunction Cls.new()\n  local o = {count = 1}\n  return o\nend\nprint(Cls.total, Cls:add(1), Cls.new().count)\n"},
	{"m.lua": "Acc = {sum = 0}\nfunction Acc:push(v)\n  self.sum = self.sum + v\n  return function() return self.sum end\nend\nfunction Acc.reset()\n  Acc.sum = 0\nend\nAcc:push(2)\nAcc.reset()\nprint(Acc.sum)\n"},
	{"m.lua": "local base = 5\ngb = base\nlocal function lfun(p) return p end\ngf2 = lfun\nholder = {}\nholder.fn = lfun\nlocal M = {}\nM.helper = lfun\nprint(gb, gf2, holder.fn, M.helper)\n"},
	{"m.lua": "local mod = require(\"lib\")\nprint(mod.helper(1), mod.value)\nlocal h = mod.helper\nprint(h)\n", "lib.lua": "local M = {}\nfunction M.helper(a) return a end\nM.value = 3\nreturn M\n"},
	{"m.lua": "local t = {a = 1, b = {c = 2}}\nt.b.c = t.a\nlocal u = t.b\nprint(u.c, t.b.c)\nfor k, v in pairs(t) do print(k, v) end\n"},
	{"m.lua": "Shape = {}\nfunction Shape:area() return 0 end\nSquare = {}\nfunction Square:area() return self.side * self.side end\nSquare.side = 2\nprint(Shape:area(), Square:area())\n", "o.lua": "print(Square.side, Shape.area)\n"},
}

func c12ObjectSpace() *core.Space {
	type item struct {
		prog int
		file string
	}
	var items []item
	for k, p := range c12ObjectPrograms {
		var fs []string
		for f := range p {
			fs = append(fs, f)
		}
		sort.Strings(fs)
		for _, f := range fs {
			items = append(items, item{k, f})
		}
	}
	name := "object-programs-every-identifier-token"
	return &core.Space{
		Name: name, N: int64(len(items)), Chunk: 1,
		Describe: func(i int64) interface{} {
			return map[string]interface{}{"files": c12ObjectPrograms[items[i].prog], "queried_file": items[i].file}
		},
		Run: func(i int64, r *core.Result) {
			it := items[i]
			files := c12ObjectPrograms[it.prog]
			txt := files[it.file]
			r.Evaluated++
			r.Nontrivial++
			root := drv.NewWorkspace(files)
			defer drv.RemoveWorkspace(root)
			s, err := drv.Start(root, drv.Options{})
			if err != nil {
				r.Fail(name, i, "server-start-failed", it.file, map[string]interface{}{"error": err.Error()})
				return
			}
			defer s.Close()
			s.Open(it.file, txt)
			f := c12File{rel: it.file, text: txt}
			for _, t := range luaref.Lex(txt).Tokens {
				if t.Kind == luaref.Name {
					f.pos = append(f.pos, rng(txt, luaref.Span{Start: t.Start, End: t.End}))
					f.nm = append(f.nm, t.Text)
				}
			}
			c12Judge(name, i, s, files, f, r, func() interface{} {
				return map[string]interface{}{"files": files, "queried_file": it.file}
			})
		},
	}
}
