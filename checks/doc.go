// Package checks registers one check per property.
package checks
