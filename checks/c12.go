package checks

import (
	"fmt"
	"os"
	"path/filepath"
	"sort"
	"strings"

	"verif/internal/core"
	"verif/internal/drv"
	"verif/internal/luaref"
)

// C12: definition, references, highlight and hover agree with each other
// (no external oracle: the server's answers are compared with each other).

type c12File struct {
	rel  string
	text string
	// identifier positions (start of each name token that is a variable occurrence)
	pos []drv.Range
	nm  []string
}

// c12Judge runs the four relations at every position of f on server s.
// declAt reports whether a location (file, range) is a local declaration per the reference parse of that file.
func c12Judge(space string, idx int64, s *drv.Server, files map[string]string, f c12File, r *core.Result, desc func() interface{}) {
	declIsLocal := func(fr fileRange) (bool, bool) {
		txt, ok := files[fr.File]
		if !ok {
			return false, false
		}
		p := luaref.Parse(txt)
		if p.Err != nil {
			return false, false
		}
		b := luaref.Bind(p.Chunk)
		for _, d := range b.Decls {
			if d.Kind != "self" && rng(txt, d.Span) == fr.Range {
				return true, true
			}
		}
		for _, o := range b.Occs {
			if rng(txt, o.Span) == fr.Range {
				return o.Decl >= 0, true
			}
		}
		return false, false
	}
	fail := func(sig string, at drv.Range, name string, det map[string]interface{}) {
		r.Outcome(sig)
		coreS := fmt.Sprintf("%s | %s:%s", sig, f.rel, lineAt(f.text, at))
		det["failure_core"] = coreS
		det["case"] = desc()
		det["position"] = fmt.Sprintf("%s %d:%d", f.rel, at.Start.Line, at.Start.Character)
		det["identifier"] = name
		r.Fail(space, idx, sig, coreS, det)
	}
	opened := map[string]bool{f.rel: true}
	ensureOpen := func(rel string) {
		if !opened[rel] {
			opened[rel] = true
			s.Open(rel, files[rel])
		}
	}
	for k, at := range f.pos {
		name := f.nm[k]
		defs, err := s.Definition(f.rel, at.Start.Line, at.Start.Character)
		if err != nil {
			fail("definition-request-error", at, name, map[string]interface{}{"error": err.Error()})
			continue
		}
		refs, err := s.References(f.rel, at.Start.Line, at.Start.Character)
		if err != nil {
			fail("references-request-error", at, name, map[string]interface{}{"error": err.Error()})
			continue
		}
		hls, err := s.Highlight(f.rel, at.Start.Line, at.Start.Character)
		if err != nil {
			fail("highlight-request-error", at, name, map[string]interface{}{"error": err.Error()})
			continue
		}
		hov, err := s.Hover(f.rel, at.Start.Line, at.Start.Character)
		if err != nil {
			fail("hover-request-error", at, name, map[string]interface{}{"error": err.Error()})
			continue
		}
		r.Transitions += 4
		r.States++
		dset := frSet(locsToFR(s, defs))
		rfr := locsToFR(s, refs)
		// (a) every reference resolves to the same declaration as p
		for _, ref := range rfr {
			if _, ok := files[ref.File]; !ok {
				continue
			}
			ensureOpen(ref.File)
			d2, err := s.Definition(ref.File, ref.Range.Start.Line, ref.Range.Start.Character)
			r.Transitions++
			if err != nil {
				continue
			}
			if d2s := frSet(locsToFR(s, d2)); d2s != dset {
				fail("reference-resolves-to-another-declaration", at, name, map[string]interface{}{"definition_of_p": dset, "reference": ref.String(), "definition_of_reference": d2s})
				break
			}
		}
		// (b) p is among the references of its own declaration
		if len(defs) > 0 {
			d0 := locsToFR(s, defs)[0]
			if _, ok := files[d0.File]; ok {
				ensureOpen(d0.File)
				r2, err := s.References(d0.File, d0.Range.Start.Line, d0.Range.Start.Character)
				r.Transitions++
				if err == nil {
					found := false
					for _, x := range locsToFR(s, r2) {
						if x.File == f.rel && x.Range == at {
							found = true
						}
					}
					if !found {
						fail("occurrence-not-among-references-of-its-declaration", at, name, map[string]interface{}{"definition_of_p": dset, "references_of_declaration": frSet(locsToFR(s, r2))})
					}
				}
			}
		}
		// (c) highlight(p) = references(p) restricted to p's file
		var inFile, hl []fileRange
		for _, x := range rfr {
			if x.File == f.rel {
				inFile = append(inFile, x)
			}
		}
		for _, h := range hls {
			hl = append(hl, fileRange{f.rel, h.Range})
		}
		if frSet(inFile) != frSet(hl) {
			fail("highlight-differs-from-references-in-file", at, name, map[string]interface{}{"references_in_file": frSet(inFile), "highlight": frSet(hl)})
		}
		// (d) hover names the identifier and says local iff the definition is a local declaration
		if hov != "" {
			label := hov
			if i := strings.Index(label, "```lua\n"); i >= 0 {
				label = label[i+7:]
			}
			if j := strings.Index(label, "```"); j >= 0 {
				label = label[:j]
			}
			if !strings.Contains(hov, name) {
				fail("hover-does-not-name-the-identifier", at, name, map[string]interface{}{"hover": hov})
			}
			if len(defs) > 0 {
				isLocal, known := declIsLocal(locsToFR(s, defs)[0])
				saysLocal := strings.HasPrefix(strings.TrimSpace(label), "local ")
				if known && isLocal != saysLocal {
					fail(fmt.Sprintf("hover-local-marker-disagrees-with-definition:definition-local=%v", isLocal), at, name, map[string]interface{}{"hover": hov, "definition_of_p": dset})
				}
			}
			r.Outcome("hover-present")
		} else {
			r.Outcome("no-hover")
		}
	}
}

func c12FromCase(c *scopeCase) c12File {
	f := c12File{rel: "m.lua", text: c.Text}
	for _, o := range c.Bind.Occs {
		f.pos = append(f.pos, rng(c.Text, o.Span))
		f.nm = append(f.nm, o.Name)
	}
	return f
}

func c12GenSpace(d scopeSpaceDef) *core.Space {
	return &core.Space{
		Name: d.name, N: d.count(), Chunk: 200, RecycleEvery: 30,
		Describe: func(i int64) interface{} { return caseDesc(d.at(i)) },
		Run: func(i int64, r *core.Result) {
			c := d.at(i)
			r.Evaluated++
			if c.Bind == nil {
				return
			}
			s, root, err := c.start(nil)
			if err != nil {
				r.Fail(d.name, i, "server-start-failed", c.Text, map[string]interface{}{"error": err.Error()})
				return
			}
			defer drv.RemoveWorkspace(root)
			defer s.Close()
			if len(c.Bind.Occs) > 1 {
				r.Nontrivial++
			}
			if i%499 == 0 {
				r.Sample(map[string]interface{}{"m.lua": c.Text, "positions": len(c.Bind.Occs)})
			}
			c12Judge(d.name, i, s, c.Files, c12FromCase(c), r, func() interface{} { return caseDesc(c) })
		},
	}
}

// testdata sweep: every directory directly under luahelper-lsp/testdata is a workspace.
var repoTestdata = core.RepoDir() + "/luahelper-lsp/testdata"

type tdFile struct{ ws, rel string }

func c12TestdataFiles() []tdFile {
	var out []tdFile
	ents, _ := os.ReadDir(repoTestdata)
	for _, e := range ents {
		if !e.IsDir() {
			continue
		}
		base := filepath.Join(repoTestdata, e.Name())
		filepath.Walk(base, func(p string, info os.FileInfo, err error) error {
			if err == nil && !info.IsDir() && strings.HasSuffix(p, ".lua") {
				rel, _ := filepath.Rel(base, p)
				out = append(out, tdFile{e.Name(), rel})
			}
			return nil
		})
	}
	sort.Slice(out, func(i, j int) bool { return out[i].ws+"/"+out[i].rel < out[j].ws+"/"+out[j].rel })
	return out
}

func loadWorkspace(dir string) map[string]string {
	files := map[string]string{}
	filepath.Walk(dir, func(p string, info os.FileInfo, err error) error {
		if err == nil && !info.IsDir() {
			rel, _ := filepath.Rel(dir, p)
			b, _ := os.ReadFile(p)
			files[rel] = string(b)
		}
		return nil
	})
	return files
}

func c12TestdataSpace() *core.Space {
	tds := c12TestdataFiles()
	return &core.Space{
		Name: "repository-testdata", N: int64(len(tds)), Chunk: 1,
		Describe: func(i int64) interface{} { return map[string]interface{}{"workspace": "testdata/" + tds[i].ws, "file": tds[i].rel} },
		Run: func(i int64, r *core.Result) {
			td := tds[i]
			files := loadWorkspace(filepath.Join(repoTestdata, td.ws))
			txt := files[td.rel]
			r.Evaluated++
			p := luaref.Parse(txt)
			if p.Err != nil {
				r.Count("testdata_files_not_valid_lua_skipped", 1)
				return
			}
			b := luaref.Bind(p.Chunk)
			root := drv.NewWorkspace(files)
			defer drv.RemoveWorkspace(root)
			s, err := drv.Start(root, drv.Options{})
			if err != nil {
				r.Fail("repository-testdata", i, "server-start-failed", td.rel, map[string]interface{}{"error": err.Error()})
				return
			}
			defer s.Close()
			s.Open(td.rel, txt)
			f := c12File{rel: td.rel, text: txt}
			for _, o := range b.Occs {
				if o.Start == o.End {
					continue
				}
				f.pos = append(f.pos, rng(txt, o.Span))
				f.nm = append(f.nm, o.Name)
			}
			r.Nontrivial++
			r.Sample(map[string]interface{}{"workspace": "testdata/" + td.ws, "file": td.rel, "positions": len(f.pos)})
			c12Judge("repository-testdata", i, s, files, f, r, func() interface{} {
				return map[string]interface{}{"workspace": "testdata/" + td.ws, "file": td.rel}
			})
		},
	}
}

func init() {
	core.Register(&core.Check{
		ID:        "C12",
		Technique: "bounded-exhaustive program enumeration plus an exhaustive sweep of every identifier position of the repository's own testdata, on the real server; metamorphic oracle (the server's own answers must agree with each other)",
		Rule: "for every variable-name position p of every program of the small statement alphabets (<=2 nodes quick, <=3 thorough) and of every valid .lua file under luahelper-lsp/testdata: (a) each location of references(p) has the definition of p, (b) p is among references(definition(p)), " +
			"(c) highlight(p) equals references(p) restricted to p's file, (d) hover(p) names the identifier and is marked local iff definition(p) is a local declaration. states = positions judged; non-trivial = files with >=2 positions",
		Assumptions: []string{
			"document highlight is requested right after didOpen (the server's 3 s typing guard is not armed)",
			"whether the location answered by definition is a local declaration is read off the reference parse of that file",
		},
		Flavour:      "prod+overlay",
		QuickBudgetS: 150, ThoroughBudgetS: 1200,
		Spaces: func(tier string) []*core.Space {
			forms, structure, _ := scopeAlphabets()
			sp := []*core.Space{c12TestdataSpace(), c12ObjectSpace(),
				c12GenSpace(scopeSpaceDef{"forms-1node", forms, 1, 1, otherVariants, 1, false, nil}),
				c12GenSpace(scopeSpaceDef{name: "sibling-blocks-on-one-line", others: otherVariants[:1], fixed: siblingBlockPrograms()}),
				c12GenSpace(scopeSpaceDef{"structure<=2-all-second-files", structure, 1, 2, otherVariants, 1, false, nil}),
				c12GenSpace(scopeSpaceDef{"structure<=2-on-one-line", structure, 1, 2, otherVariants[:1], 1, true, nil}),
				c12GenSpace(scopeSpaceDef{"structure-3nodes-on-one-line-first-40000", structure, 3, 3, otherVariants[:1], 40000, true, nil}),
			}
			if tier == "thorough" {
				sp = append(sp, c12GenSpace(scopeSpaceDef{"structure-3nodes", structure, 3, 3, otherVariants[:1], 1, false, nil}),
					c12GenSpace(scopeSpaceDef{"structure-3nodes-on-one-line", structure, 3, 3, otherVariants[:1], 1, true, nil}))
			}
			return sp
		},
	})
}
