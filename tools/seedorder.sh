#!/bin/bash
# maintainer tool: runs every quick check with permuted chunk orders (VERIF_SEED) into a scratch output directory;
# a verdict that changes with the order is a harness defect (cases sharing a worker process influence each other)
export GOFLAGS=-mod=mod GOPROXY=off GOSUMDB=off GOTOOLCHAIN=local
cd /verif
BIN=${BIN:-/verif/bin/vcheck}
for seed in ${SEEDS:-7 11}; do
 for id in ${IDS:-$(python3 -c "import json;print(' '.join(c['property_id'] for c in json.load(open('/verif/MANIFEST.json'))['checks']))")}; do
  VERIF_SEED=$seed VERIF_OUT=/tmp/seedorder-out $BIN run $id --tier ${TIER:-quick} > /tmp/seedorder-$id-$seed.log 2>&1; rc=$?
  echo "seed=$seed $id exit=$rc $(tail -1 /tmp/seedorder-$id-$seed.log)"
 done
done
