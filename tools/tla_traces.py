#!/usr/bin/env python3
"""Runs TLC on tla/Dispatch.tla, dumps the labelled state graph and writes every distinct observable
projection (Arrive / handler start / handler finish) of every maximal behaviour to a JSON file that the
C10 check replays against the real jrpc2.Server.  usage: tla_traces.py <N> <out.json>"""
import json, os, re, subprocess, sys, tempfile
n, out = int(sys.argv[1]), sys.argv[2]
home = os.path.dirname(os.path.dirname(os.path.abspath(__file__)))
tmp = tempfile.mkdtemp(prefix='tlc', dir=os.path.join(home, '.build'))
cfg = os.path.join(tmp, 'D.cfg')
open(cfg, 'w').write(f"CONSTANTS N = {n}\n Cap = 4\nINIT Init\nNEXT Next\nINVARIANTS TypeOK CapInv NotificationOrder NoDeadlock\nCHECK_DEADLOCK FALSE\n")
subprocess.run(['cp', os.path.join(home, 'tla', 'Dispatch.tla'), tmp], check=True)
dot = os.path.join(tmp, 'g.dot')
p = subprocess.run(['tlc', '-config', cfg, '-metadir', os.path.join(tmp, 'states'), '-dump', 'dot,actionlabels', dot, 'Dispatch.tla'], cwd=tmp, capture_output=True, text=True)
if 'No error has been found' not in p.stdout:
    sys.stderr.write(p.stdout[-3000:]); sys.exit(1)
m = re.search(r'(\d+) states generated, (\d+) distinct states found', p.stdout)
states, init, edges = {}, [], {}
for line in open(dot):
    mm = re.match(r'(-?\d+) \[label="(.*)"(,style = filled)?\]', line)
    if mm:
        lab = mm.group(2).replace('\\\\', '\\')
        def setof(name):
            x = re.search(name + r' = \{([^}]*)\}', lab)
            return frozenset(int(t) for t in x.group(1).split(',') if t.strip()) if x else frozenset()
        kinds = re.findall(r'\\"(req|ntf)\\"', re.search(r'kind = <<(.*?)>>', lab).group(1))
        arrived = int(re.search(r'arrived = (\d+)', lab).group(1))
        states[mm.group(1)] = dict(running=setof('running'), done=setof('done'), kind=tuple(kinds), arrived=arrived)
        if mm.group(3): init.append(mm.group(1))
        continue
    mm = re.match(r'(-?\d+) -> (-?\d+) \[label="(\w+)(?:\((\d+)\))?"', line)
    if mm: edges.setdefault(mm.group(1), []).append((mm.group(2), mm.group(3)))
sys.setrecursionlimit(100000)
memo = {}
def proj(s):
    if s in memo: return memo[s]
    res = set()
    outs = [e for e in edges.get(s, []) if e[0] != s]
    if not outs: res.add(())
    for t, lab in outs:
        a, b = states[s], states[t]
        ev = None
        if lab == 'Arrive': ev = ('A', b['arrived'])
        elif lab == 'Acquire': ev = ('S', next(iter(b['running'] - a['running'])))
        elif lab == 'Finish': ev = ('F', next(iter(b['done'] - a['done'])))
        for suf in proj(t):
            res.add(((ev,) + suf) if ev else suf)
    memo[s] = res
    return res
traces = []
for s in init:
    for tr in sorted(proj(s)):
        traces.append({'kind': list(states[s]['kind']), 'events': [list(e) for e in tr]})
json.dump({'N': n, 'tlc_states_generated': int(m.group(1)), 'tlc_distinct_states': int(m.group(2)), 'traces': traces}, open(out, 'w'))
print(f"tla_traces: N={n}: TLC {m.group(2)} distinct states, {len(traces)} distinct observable behaviours -> {out}")
subprocess.run(['rm', '-rf', tmp])
