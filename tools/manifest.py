#!/usr/bin/env python3
"""Regenerates /verif/MANIFEST.json from the table below (kept valid at all times)."""
import json, subprocess, sys
props = [json.loads(l) for l in open('/verif/properties.jsonl')]
ids = [p['id'] for p in props]

# id -> (technique, level text, level note, design ref)
CHECKS = {
 'C02': ("bounded-exhaustive history exploration (BFS over open/change/save/close histories, states merged on buffer text) of the real handlers against a reference UTF-16 text buffer",
         "every document over {a,é,中,😀,LF,CRLF,CR} up to the length bound, every range over its valid UTF-16 positions x 6 insert texts, one- and two-edit batches, and every open/incremental/full/save/close history up to the depth bound is executed on the real FileMapCache / LspServer handlers and the cached text compared with the reference buffer after every event; a change outside the document followed by didSave must leave exactly the saved text; a coverage statement over a closed small scope, which is what a byte-for-byte equality claim over all edit histories needs",
         "trusted: the reference buffer in internal/textref (LSP 3.17 position semantics), the accessor overlay that reads LspServer.fileCache; bounds: documents <=3/4 symbols, histories <=3/4 events, one file",
         "DESIGN.md §4 C02"),
 'C03': ("bounded-exhaustive input enumeration (all token strings <=3/4, grammar-directed programs with all single-token mutants, token strings planted in 31 syntactic contexts, all small numerals/strings/brackets/comments, all trivia assignments) against an independent reference recogniser",
         "every text of the stated finite spaces is parsed by the real parser and by an independent recogniser written from the Lua manual; the verdicts must agree in both directions, and a stride of the same texts is pushed through the real server to bind 'parser error list' to 'published type-1 diagnostic'. Exhaustive small-scope coverage is the right level for an iff-claim over all programs: both the never-flag-valid and the never-miss-invalid direction are exercised on millions of near-valid texts",
         "trusted: internal/luaref (reference lexer/parser; own grammar test list); version-dependent texts (5.3 vs 5.4 vs LuaJIT) and compile-time rules (break outside loop, goto labels, vararg context, attribute names) are don't-care; bounds as stated in the evidence file",
         "DESIGN.md §4 C03"),
 'C05': ("bounded-exhaustive program enumeration (all programs of three statement alphabets up to the node bound, two layouts, both ends of every identifier) on the real server against an independent reference scope binder",
         "every program of the ranked statement alphabets over the colliding names {a,b} (shadowing, closures, loops, repeat-until, functions, a second file defining a global) is opened on a real server and textDocument/definition is asked at both ends of every name occurrence; the answer must be the declaration Lua's scoping selects (reference binder written from the manual). A coverage statement over all small programs is what a forall-programs/forall-positions claim needs; the small-scope witnesses of scoping bugs are 1-3 statements",
         "trusted: internal/luaref binder (manual 3.5; own tests); any defining assignment is accepted for globals; ASCII programs so column arithmetic (C04) cannot leak in; bounds: <=2 nodes with 31 expression forms, <=3 nodes structure alphabet (both layouts), 4 nodes core alphabet (thorough)",
         "DESIGN.md §4 C05"),
 'C06': ("bounded-exhaustive program enumeration (same program spaces as C05, every name occurrence as query) on the real server against the occurrence classes of the reference binder",
         "textDocument/references (declaration included) is asked at every name occurrence of every enumerated program and compared, as a set of (file, range), with the class of occurrences the reference binder binds to the same declaration (locals) or with all unbound occurrences of the name in all files (globals)",
         "trusted: internal/luaref binder; names that no file ever assigns are don't-care; order/duplicates ignored; bounds as C05",
         "DESIGN.md §4 C06"),
 'C07': ("bounded-exhaustive program enumeration (same program spaces, two configuration channels) on the real server against diagnostics predicted from the reference binder (three-valued oracle)",
         "with all checks on, the published type 2/3/4/17 diagnostics of every enumerated program are compared with must / must-not / don't-care obligations derived from the reference binding: an unbound read must be reported, a bound name never, an unread plain local must be reported unused (also when named _a, __, a_), a read local never",
         "trusted: internal/luaref binder; don't-care zones listed in the evidence assumptions (idiom contexts, load-order cases, exempt declaration kinds); client flags and luahelper.json (ignore lists) channels",
         "DESIGN.md §4 C07"),
 'C12': ("bounded-exhaustive program enumeration plus exhaustive sweep of all identifier positions of the repository testdata, metamorphic oracle over the real server's own answers",
         "at every variable position of every small program and of every valid testdata file the four relations between definition, references, highlight and hover stated by the property are evaluated on the real server's answers; no external expectation is involved, so every disagreement is a defect of at least one feature",
         "trusted: only the classification 'the answered location is a local declaration' uses the reference parse; highlight asked right after didOpen (typing guard not armed)",
         "DESIGN.md §4 C12"),
 'C14': ("bounded-exhaustive program enumeration (all programs of the structure alphabet up to the node bound, uniquely renamed, every statement boundary as cursor) against the reference binder's visible-name sets",
         "for every statement boundary of every block of every enumerated program the line print(v) is inserted as an unsaved change and completion is requested behind the v; every visible local/parameter/loop variable and every workspace global with the prefix must be offered, no out-of-scope local may be",
         "trusted: internal/luaref VisibleAt; other labels ignored; bounds: <=2 nodes + first 60000 programs of 3 nodes (quick), <=3 nodes (thorough)",
         "DESIGN.md §4 C14"),
 'C08': ("explicit-state exploration of client/file event histories up to a depth bound (reference client model decides enabledness), each replayed on a fresh real server; differential invariant against a freshly started server on the same disk after every event",
         "every history of open/change/save/close/create/delete/external-change events over two files and six content variants that a conformant client can produce, up to depth 3 (quick) / 4-5 (thorough) from three initial workspaces, is replayed through the real jrpc2 server; after every event the folded client view (last publishDiagnostics per file) and definition answers must equal those of a fresh server on the same disk, with the unsaved-buffer rule of the property; no state merging, because equal client-visible states may hide different server states",
         "trusted: the client conventions of DESIGN.md Appendix D (how VS Code orders save / watched events); the oracle is the implementation itself from the initial state; files touched-but-equal-to-disk are not judged",
         "DESIGN.md §4 C08"),
 'C04': ("bounded-exhaustive document enumeration (same-line prefixes x occurrence kinds x line endings x lines above) on the real server; every returned range checked against the client's text with a reference UTF-16 line table",
         "all range-returning answers (diagnostics with every check on, definition, references, highlight, rename edits, document and workspace symbols) for every document of the stated product space are checked: start <= end, both ends inside the client's text in UTF-16 units, and the text under a range that names an identifier is that identifier",
         "trusted: internal/textref line table; bounds: 12 prefixes singly (quick) / in pairs (thorough), 10 occurrence kinds, 3 line endings, 4 kinds of preceding lines",
         "DESIGN.md §4 C04"),
 'C11': ("bounded-exhaustive program enumeration (every renameable occurrence, two new names) on the real server; oracle: reference occurrence classes, re-binding of the renamed program, fresh server on the renamed workspace",
         "for every occurrence of every enumerated program rename is requested; the edit must be non-overlapping, cover identifiers spelled with the old name, equal the reference binder's occurrence class, leave the binding structure of all files unchanged when applied, and leave the diagnostics of a fresh server unchanged up to the name",
         "trusted: internal/luaref binder; never-assigned globals not judged; diagnostics compared by (file, type, line)",
         "DESIGN.md §4 C11"),
 'C13': ("bounded-exhaustive enumeration (declaration forms x comment placements x all comment strings up to a length over ASCII, 2-, 3- and 4-byte characters) on the real server against the documented attachment rule",
         "hover is requested at the declaration and at a use for every combination; the label must say what the declaration says (local marker, literal, parameter names) and the documentation must be exactly the attached comment (trailing, else the block directly above, never one separated by a blank line), byte-identical after the documented clean-up",
         "trusted: the attachment rule as stated by the property; comments empty after clean-up or starting with an extra dash are not judged; bounds: comment strings <=2 (quick) / <=3 (thorough) symbols",
         "DESIGN.md §4 C13"),
 'C19': ("bounded-exhaustive file enumeration (all sequences of top-level statements of a 23-form declaration alphabet up to the length bound) on the real server against the reference parser's declaration list",
         "every top-level local, global and function (members included) of every enumerated file must have an outline entry whose range lies in the file and contains the declaring identifier, and workspace/symbol with the exact name must return an entry at the declaration",
         "trusted: internal/luaref parser for the declaration list; matching rule: entry range contains the declaring identifier and entry name contains it; bounds: <=2 (quick) / <=3 (thorough) statements",
         "DESIGN.md §4 C19"),
 'C20': ("bounded-exhaustive enumeration of pattern instances and near-misses (per-pattern small spaces x syntactic contexts x nesting wraps) on the real server against independent pattern matchers with explicit don't-care zones",
         "each documented pattern check (5,7,8,13,14,15,16,19,20,21) is confronted with every instance and near-miss of its small space planted in every context; on the instance line the type must appear exactly once, must not appear, or is not judged, and never on another line",
         "trusted: matchers written from docs/manual/config.md and the property text; don't-care zones listed in the evidence; bounds: 13 operators x 10x10 operands x 15 contexts x 4/9 wraps, tables <=3 entries, <=3 targets/values/parameters/conditions",
         "DESIGN.md §4 C20"),
 'C17': ("exhaustive enumeration of configurations (all 2^26 flag vectors on the real flag mapping; all 1-3 flag deviations x 3 delivery channels and all ignore-rule subsets <=2 x channels on the real server) with a metamorphic oracle diag(c) = filter_c(diag(all enabled))",
         "the complete flag space is pushed through the real flag-to-ignore-set mapping, and on a fixed workspace that triggers 19 diagnostic types every one/two/three-flag deviation from all-on and all-off, the master switch and every subset <=2 of file ignore rules (literal, folder, regex, non-matching, invalid regex; one class is declared in an ignored and in a normal file) is run on the real server through initializationOptions, a later didChangeConfiguration and luahelper.json; the shown diagnostics must be exactly the all-enabled ones that the configuration does not exclude; malformed patterns must not take the server down",
         "trusted: the filter semantics as stated by the property and docs/manual/config.md (substring or Go regex on the file path); the workspace in checks/c17.go; the check reports a vacuous baseline if fewer than 14 types appear",
         "DESIGN.md §4 C17"),
 'C18': ("bounded-exhaustive enumeration of directory trees x requiring file x module string x call form x separator x one create/delete event on the real server; three-valued reference resolver plus cross-feature consistency",
         "every subset of <=3/4 of eight candidate module files, two requiring locations, eight module strings, three call forms and both separators (plus two small spaces: module strings ending in .lua, directories whose name ends with a module segment), before and after one watched create/delete event: the type-6 diagnostic, go-to-definition and hover on the string and the file the analysis loaded must agree, modules existing at the documented path must resolve to a file with that trailing path, modules for which no such file exists must be reported, and the verdict must flip at once after the event",
         "trusted: the documented mapping as stated by the property (name.lua then name/init.lua relative to the root or the requiring file's directory); fuzzy suffix matches, equally ranked duplicates (C09's subject), other-separator strings and native .so modules are don't-care",
         "DESIGN.md §4 C18"),
 'C09': ("stateless schedule exploration (deviation-bounded DFS with prefix replay) of the real server under a controlled runtime, crossed with pool width and every start offset of Go's map iteration; all executions of a workspace must give identical observables; plus directory-listing order (os overlay: natural/reversed/rotated) and, as a non-exhaustive complement, a free-running pass of the same closed systems under Go's race detector",
         "the instrumented build runs every goroutine start, channel operation, reflect.Select choice, mutex/WaitGroup operation (and, in a second pass, every entry of a method of the shared objects) under a scheduler owned by the explorer, and the Go runtime's map-iteration start position is fixed per execution through a runtime overlay; five collision-prone workspaces are started and queried under every schedule with <=1-2 deviations x NumCPU {1,2} x 8 map offsets, and the normalised observables must equal those of the canonical execution",
         "trusted: the controlled runtime (overlay/vrt) and the syntactic instrumenter (cmd/vinstr): an operation it does not know would block outside the scheduler and is reported as a harness error; granularity and bounds as stated in the evidence; memory-model effects below the instrumented operations are out of scope",
         "DESIGN.md §4 C09, §8.4"),
 'C10': ("stateless schedule exploration of the real handlers under the controlled runtime for every word of 2-3 in-flight messages allowed by the dispatcher model (TLA+ model checked by TLC, all its behaviours replayed against the real jrpc2.Server); oracles: lockset/overlap check, no panic/deadlock, every answer produced by some sequential order; plus, as a non-exhaustive complement, every ordered pair and request-notification-request triple of 19 messages sent back to back to the real jrpc2 server in a -race build (any race report with a repository frame is a violation)",
         "each of 17 message kinds (two of them requests at a place without an identifier) is paired with every other (and tripled in thorough); every interleaving with <=2-3 deviations at lock, channel and shared-object method-entry points is executed on the real handlers; a conflicting overlap of two activations on the same shared object without a common lock, a panic, a deadlock, or an answer that no sequential order produces is a violation; the harness dispatches handlers exactly as tla/Dispatch.tla allows, and every TLC behaviour for <=3 (thorough: 4) messages is replayed against the real dispatcher with gated stubs",
         "trusted: overlay/vrt, cmd/vinstr (syntactic writer classification), tla/Dispatch.tla as the model of jrpc2's dispatch; interleaving granularity = synchronisation operations and shared-object method entries; sequential specification = the same build on one thread",
         "DESIGN.md §4 C10, Appendix A, §8.4"),
 'C15': ("bounded-exhaustive enumeration of class hierarchies (every parent-set assignment over 2/3 classes incl. cycles) x alias shapes x wrapper types x file layouts on the real server against a cycle-safe transitive-closure model",
         "for every inheritance graph over two (quick) or three (thorough) classes, every alias shape (none, one, chain, cycle) and wrapper (T, T[], table<string,T>), in one or two files, member completion behind v. / v[1]. / v[\"k\"]. must offer exactly the fields of the class and all its ancestors plus the member assigned through the variable, member go-to-definition must reach the field line, and cyclic hierarchies / alias cycles must not crash or hang (worker crash attribution)",
         "trusted: the transitive-closure model in checks/c15.go; other completion labels are ignored; for a variable typed by a cyclic alias only liveness is required",
         "DESIGN.md §4 C15"),
 'C16': ("bounded-exhaustive derivation enumeration of the documented annotation grammar (all type expressions up to a node bound in every statement kind) against an independent reference reader (canonical S-expressions), print/re-read round trip, and all single-token corruptions of documented lines between good neighbours on the real server",
         "every documented statement kind with every type expression of <=3/4 constructor nodes must be accepted as one statement whose understood tree equals the reference tree and whose printed form reads back to the same tree; every single-token corruption of 11 documented lines, embedded between good annotation lines above a declaration, must leave the Lua diagnostics unchanged, put any type-18 warning on the corrupted line only, and leave the neighbouring class members understood",
         "trusted: internal/annref (grammar of docs/manual/annotate.md: [] binds tighter than |, parentheses group, fun return lists extend to the end of the type)",
         "DESIGN.md §4 C16"),
 'C01': ("bounded-exhaustive enumeration in five layers (all small byte/token strings through the front end; documents through a full server start followed by every request kind at every position; all conformant message histories up to a depth; every one-/two-field deviation of luahelper.json) with process-level crash/hang attribution and visibility of swallowed panics",
         "the real lexer, parser and comment analysis see every string of <=3/4 symbols over a 29-symbol byte alphabet and every string of <=2/3 lexemes; degenerate documents, scope programs, statement mutants and annotation blocks (cyclic classes and aliases, truncated lines) are started on a real server and 14 request kinds are asked at every position up to one line and two columns beyond the text; every message history of depth <=2/3 over 49 events and every field deviation of luahelper.json is run; a dying or hanging worker is narrowed to one case and confirmed three times, and the instrumented recover() sites report any swallowed fault",
         "trusted: the worker/parent crash attribution of internal/core; a hang = no return within 20-60 s when run alone; deadlocks of the concurrent shell are C10's exploration; bounds as stated",
         "DESIGN.md §4 C01"),
}
NOT_YET = "check not built yet in this round (planned: see DESIGN.md section 4); no claim is made"

def main():
    checks = []
    for i in ids:
        if i not in CHECKS: continue
        tech, text, note, ref = CHECKS[i]
        checks.append({
            "property_id": i,
            "quick_cmd": f"/verif/run.sh {i} quick",
            "thorough_cmd": f"/verif/run.sh {i} thorough",
            "evidence_file": f"/verif/evidence/{i}.json",
            "replay_cmd_template": "/verif/bin/vcheck replay {path}",
            "engine": "vcheck",
            "level_claimed": {"category": "model_checking", "text": text, "design_ref": ref},
            "level_note": note,
            "technique": tech,
        })
    na = [{"property_id": i, "reason": NA.get(i, NOT_YET)} for i in ids if i not in CHECKS]
    m = {
     "version": 1,
     "setup_cmd": "sh /verif/build.sh",
     "hooks": {
       "guard": "verif",
       "enable": "go build -tags verif -overlay /verif/.build/overlay.json: the overlay (accessor file, the virtual packages langserver/vrt and vrt/vsync, instrumented copies of all langserver sources, two Go runtime hook files for the map-iteration start position and the goroutine id, two package-os hook files permuting whole-directory reads) is generated by /verif/bin/vinstr from /repo's working tree on every build; nothing is committed to /repo; bin/vcheck-race is the same program built with -race for the free-running race-detector pass of C09/C10",
       "baseline_off_cmd": "cd /repo/luahelper-lsp && GOFLAGS=-mod=mod go test -json -vet=off -count=1 -timeout 25m ./...",
       "source_commits": [],
       "add_only": True,
     },
     "engines": [
       {"name": "vcheck", "path": "/verif/cmd/vcheck", "serves_properties": [c["property_id"] for c in checks],
        "kind_free_text": "bounded-exhaustive explorer: ranked case spaces sharded over worker processes, crash/hang attribution by journal, reference models in Go, real LuaHelper code driven in process"},
       {"name": "vinstr", "path": "/verif/cmd/vinstr", "serves_properties": [c["property_id"] for c in checks],
        "kind_free_text": "build-time overlay generator (tag verif): accessors and source rewrites, /repo untouched"},
     ],
     "checks": checks,
     "not_applicable": na,
     "notes": "All checks rebuild from /repo's working tree (run.sh -> build.sh). Known findings: /verif/known_findings.json.",
    }
    json.dump(m, open('/verif/MANIFEST.json','w'), indent=1, ensure_ascii=False)
    print("checks:", [c["property_id"] for c in checks], "not claimed:", len(na))
NA = {}
main()
