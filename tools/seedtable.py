#!/usr/bin/env python3
"""Prints the seeded-change table (markdown) from /verif/seeded/*/meta.json."""
import json, glob, os
print("| seed | what the change needs to manifest (agent's note, first line) | suite green | demo fails with / passes without | caught by |")
print("|---|---|---|---|---|")
for d in sorted(glob.glob('/verif/seeded/*/')):
    mp = os.path.join(d, 'meta.json')
    if not os.path.exists(mp): continue
    m = json.load(open(mp))
    note = m.get('needs_to_manifest', '').strip().split('\n')
    first = next((l.strip('# *-') for l in note if l.strip() and not l.startswith('#')), '')[:160].replace('|', '/')
    caught = [f"{c} {v['tier']}" for c, v in m.get('checks', {}).items() if v.get('exit') == 1]
    missed = [f"{c} {v['tier']}" for c, v in m.get('checks', {}).items() if v.get('exit') != 1]
    res = ', '.join(caught) if caught else '**missed**'
    if caught and missed: res += ' (not by ' + ', '.join(missed) + ')'
    ok = m.get('demo_exit_with_change', 0) != 0 and m.get('demo_exit_without_change', 1) == 0
    print(f"| {os.path.basename(d.rstrip('/'))} | {first} | {'yes' if m.get('suite_failures_with_change') == 0 else 'NO'} | {'yes' if ok else 'NO (seed no longer valid on this tree)'} | {res} |")
