#!/usr/bin/env python3
"""Prints the seeded-change table (markdown) from /verif/seeded/*/meta.json."""
import json, glob, os
# seeds that the check first missed and that are caught since the space was widened (DESIGN.md §10 says how);
# from round 3 on the run history in meta.json records this by itself
WIDENED = set("""C01-a C15-a C16-b C18-b C19-a C19-b C02-d C03-c C04-c C04-d C06-d C01-c C08-c C08-d C09-c C09-d C11-d C12-c C13-d C14-d
C15-c C15-d C16-c C19-c C19-d C20-d C01-e C01-f C02-f C04-e C04-f C06-f C08-f C09-e C10-f C15-f C19-f C13-f C14-e C14-f C16-e C17-e C18-f C20-e""".split())
print("| seed | what the change needs to manifest (agent's note, first line) | suite green | demo fails with / passes without | caught by |")
print("|---|---|---|---|---|")
for d in sorted(glob.glob('/verif/seeded/*/')):
    mp = os.path.join(d, 'meta.json')
    if not os.path.exists(mp): continue
    m = json.load(open(mp))
    note = m.get('needs_to_manifest', '').strip().split('\n')
    first = next((l.strip('# *-') for l in note if l.strip() and not l.startswith('#')), '')[:160].replace('|', '/')
    caught = [f"{c} {v['tier']}" for c, v in m.get('checks', {}).items() if v.get('exit') == 1]
    missed = [f"{c} {v['tier']}" for c, v in m.get('checks', {}).items() if v.get('exit') != 1]
    res = ', '.join(caught) if caught else '**missed**'
    name = os.path.basename(d.rstrip('/'))
    hist = m.get('history', [])
    first_missed = name in WIDENED or any(h['exit'] == 0 for h in hist[:1] if h['check'] == name[:3])
    if caught and first_missed: res += ' — after the space was widened (§10)'
    if caught and missed: res += ' (not by ' + ', '.join(missed) + ')'
    ok = m.get('demo_exit_with_change', 0) != 0 and m.get('demo_exit_without_change', 1) == 0
    print(f"| {os.path.basename(d.rstrip('/'))} | {first} | {'yes' if m.get('suite_failures_with_change') == 0 else 'NO'} | {'yes' if ok else 'NO (seed no longer valid on this tree)'} | {res} |")
