#!/usr/bin/env python3
"""Maintainer tool (never run by checks): freeze the witness sets of listed known-finding signatures.
usage: freeze.py <ID> <tier> <descr.json>   where descr.json maps signature -> human description.
Only signatures present in descr.json are recorded; everything else stays a violation."""
import json, subprocess, sys, os
pid, tier, descr = sys.argv[1], sys.argv[2], json.load(open(sys.argv[3]))
if tier.endswith('.json') or tier.endswith('.log') or '/' in tier:
    out = open(tier).read()   # output of an earlier `vcheck freeze` run
else:
    out = subprocess.run(['/verif/bin/vcheck','freeze',pid,tier],capture_output=True,text=True).stdout
data = json.loads(out[out.index('{\n'):out.rindex('}')+1])
if descr.get('*'):
    # every observed signature gets the generic description unless listed explicitly
    for sig in data:
        descr.setdefault(sig, descr['*'])
    del descr['*']
kf = json.load(open('/verif/known_findings.json'))
os.makedirs('/verif/known', exist_ok=True)
for sig, what in descr.items():
    if sig not in data:
        print('signature not observed:', sig); continue
    entry = next((f for f in kf['findings'] if f['property']==pid and f['signature']==sig), None)
    if entry is None:
        n = 1 + sum(1 for f in kf['findings'] if f['property']==pid)
        entry = {'property': pid, 'signature': sig, 'what': what, 'witnesses': ['@known/%s.%d.txt' % (pid, n)]}
        kf['findings'].append(entry)
    entry['what'] = what
    path = '/verif/' + entry['witnesses'][0][1:]
    old = set(open(path).read().split()) if os.path.exists(path) else set()
    new = sorted(old | set(data[sig]))
    open(path,'w').write('\n'.join(new)+'\n')
    print(sig, len(new), 'witnesses ->', path)
json.dump(kf, open('/verif/known_findings.json','w'), indent=1, ensure_ascii=False)
