#!/bin/bash
# usage: seedtest.sh <ID> <variant> [check-ids...]   -- validates a seeded change and runs checks against it
# expects /tmp/seed/out/<ID>/<variant>/{patch.diff,demo_test.go,notes.md} or /verif/seeded/<ID>-<variant>/
export GOFLAGS=-mod=mod GOPROXY=off GOSUMDB=off GOTOOLCHAIN=local
ID=$1; V=$2; shift 2; CHECKS=${@:-$ID}
D=/verif/seeded/$ID-$V
mkdir -p $D
if [ -d /tmp/seed/out/$ID/$V ]; then cp /tmp/seed/out/$ID/$V/* $D/; fi
WT=/tmp/seedchk-$ID-$V
git -C /repo worktree remove --force $WT 2>/dev/null
git -C /repo worktree add -q --detach $WT HEAD || exit 2
pkg=$(head -1 $D/demo_test.go | sed -n 's/.*copy to: *\([^ ]*\).*/\1/p'); pkg=${pkg%/}
echo "demo package: $pkg"
cd $WT
git apply $D/patch.diff || { echo "PATCH DOES NOT APPLY"; git -C /repo worktree remove --force $WT; exit 2; }
(cd luahelper-lsp && go build ./... ) || echo "BUILD FAILS"
suite=$(cd luahelper-lsp && go test -vet=off -count=1 ./... 2>&1 | grep -c "^FAIL\|^---  FAIL\|^--- FAIL")
echo "suite failures with change: $suite"
cp $D/demo_test.go $WT/$pkg/zz_seed_demo_test.go
(cd $WT/$pkg && go test -vet=off -count=1 -run "$(grep -o 'func Test[A-Za-z0-9_]*' zz_seed_demo_test.go | sed 's/func //' | paste -sd'|')" . >/tmp/seed-demo-with.log 2>&1); with=$?
git apply -R $D/patch.diff
(cd $WT/$pkg && go test -vet=off -count=1 -run "$(grep -o 'func Test[A-Za-z0-9_]*' zz_seed_demo_test.go | sed 's/func //' | paste -sd'|')" . >/tmp/seed-demo-without.log 2>&1); without=$?
echo "demo exit with change: $with (want !=0); without: $without (want 0)"
cd /; git -C /repo worktree remove --force $WT
# run our checks against it
if [ -n "$(git -C /repo status --porcelain --untracked-files=no)" ]; then echo "/repo not clean"; exit 2; fi
git -C /repo apply $D/patch.diff
res=""
for c in $CHECKS; do
  /verif/run.sh $c ${TIER:-quick} > /tmp/seed-check-$c.log 2>&1; rc=$?
  nv=$(grep -c '^VIOLATION' /tmp/seed-check-$c.log)
  echo "check $c ${TIER:-quick}: exit=$rc violations_lines=$nv : $(grep '^  signature' /tmp/seed-check-$c.log | sort | uniq -c | sort -rn | head -3 | tr '\n' ';')"
  res="$res\"$c\": {\"tier\": \"${TIER:-quick}\", \"exit\": $rc, \"violation_lines\": $nv},"
done
git -C /repo checkout -- .
cat > $D/meta.json <<EOM
{"property": "$ID", "variant": "$V", "suite_failures_with_change": $suite, "demo_exit_with_change": $with, "demo_exit_without_change": $without,
 "needs": $(python3 -c "import json,sys;print(json.dumps(open('$D/notes.md').read()[:1500]))"),
 "checks": {${res%,}}, "ran": "tools/seedtest.sh $ID $V $CHECKS"}
EOM
# restore evidence of the unchanged tree is the caller's job (re-run the checks)
