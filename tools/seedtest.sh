#!/bin/bash
# usage: [TIER=quick] seedtest.sh <ID> <variant> [check-ids...]
# Validates a seeded change (suite still green, demo fails with / passes without) in a scratch worktree of /repo
# and runs the given checks against that worktree (VERIF_REPO), never touching /repo itself.
# expects /tmp/seed/out/<ID>/<variant>/{patch.diff,demo_test.go,notes.md} or /verif/seeded/<ID>-<variant>/
export GOFLAGS=-mod=mod GOPROXY=off GOSUMDB=off GOTOOLCHAIN=local
# several validations may share the machine: the tier budget must not cut a run short
export VERIF_BUDGET_S=${VERIF_BUDGET_S:-3000}
ID=$1; V=$2; shift 2; CHECKS=${@:-$ID}
D=/verif/seeded/$ID-$V
mkdir -p $D
if [ -d /tmp/seed/out/$ID/$V ]; then cp /tmp/seed/out/$ID/$V/* $D/; fi
if [ -d /tmp/seed/out2/$ID/$V ]; then cp /tmp/seed/out2/$ID/$V/* $D/; fi
if [ -d /tmp/seed/out3/$ID/$V ]; then cp /tmp/seed/out3/$ID/$V/* $D/; fi
if [ -d /tmp/seed/out5/$ID/$V ]; then cp /tmp/seed/out5/$ID/$V/* $D/; fi
if [ -d /tmp/seed/out6/$ID/$V ]; then cp /tmp/seed/out6/$ID/$V/* $D/; rm -f $D/tmp.diff; fi
if [ -d /tmp/seed/out4/$ID/$V ]; then cp /tmp/seed/out4/$ID/$V/* $D/; rm -f $D/tmp.diff; fi
TAG=seed-$ID-$V
WT=/tmp/$TAG
git -C /repo worktree remove --force $WT 2>/dev/null
git -C /repo worktree add -q --detach $WT HEAD || exit 2
pkg=$(head -1 $D/demo_test.go | sed -n 's/.*copy to: *\([^ ]*\).*/\1/p'); pkg=${pkg%/}
cd $WT
git apply $D/patch.diff 2>/dev/null || git apply -3 $D/patch.diff || { echo "PATCH DOES NOT APPLY"; git -C /repo worktree remove --force $WT; exit 2; }
(cd luahelper-lsp && go build ./... ) || echo "BUILD FAILS"
suite=$(cd luahelper-lsp && go test -vet=off -count=1 ./... 2>&1 | grep -c "^FAIL\|^--- FAIL")
tests="$(grep -o 'func Test[A-Za-z0-9_]*' $D/demo_test.go | sed 's/func //' | paste -sd'|')"
cp $D/demo_test.go $WT/$pkg/zz_seed_demo_test.go
(cd $WT/$pkg && go test -vet=off -count=1 -run "$tests" . >/tmp/$TAG-demo-with.log 2>&1); with=$?
git apply -R $D/patch.diff
(cd $WT/$pkg && go test -vet=off -count=1 -run "$tests" . >/tmp/$TAG-demo-without.log 2>&1); without=$?
rm -f $WT/$pkg/zz_seed_demo_test.go
git apply $D/patch.diff
echo "[$ID-$V] suite failures with change: $suite; demo exit with change: $with (want !=0); without: $without (want 0)"
res=""
export VERIF_REPO=$WT VERIF_ALT_TAG=$TAG VERIF_OUT=/tmp/$TAG-out
mkdir -p $VERIF_OUT
# the framework is built from a snapshot of /verif's committed HEAD, so that edits in progress never break a queued run
SNAP=/tmp/$TAG-verif
rm -rf $SNAP; mkdir -p $SNAP
git -C /verif archive HEAD | tar -x -C $SNAP
mkdir -p $SNAP/.build; cp -r /verif/.build/tla $SNAP/.build/ 2>/dev/null
if sh $SNAP/build.sh > /tmp/$TAG-build.log 2>&1; then
 for c in $CHECKS; do
  $SNAP/bin/vcheck-$TAG run $c --tier ${TIER:-quick} > /tmp/$TAG-check-$c.log 2>&1; rc=$?
  nv=$(grep -c '^VIOLATION' /tmp/$TAG-check-$c.log)
  echo "[$ID-$V] check $c ${TIER:-quick}: exit=$rc violation_lines=$nv : $(grep '^  signature' /tmp/$TAG-check-$c.log | sort | uniq -c | sort -rn | head -3 | tr '\n' ';')"
  res="$res\"$c\": {\"tier\": \"${TIER:-quick}\", \"exit\": $rc, \"violation_lines\": $nv},"
 done
else
 echo "[$ID-$V] framework build failed against the changed tree"; tail -5 /tmp/$TAG-build.log
fi
cd /; git -C /repo worktree remove --force $WT; rm -rf $SNAP $VERIF_OUT
python3 - "$D" "$ID" "$V" "$suite" "$with" "$without" "{${res%,}}" "$CHECKS" <<'PY'
import json,sys,os
D,ID,V,suite,w,wo,res,checks=sys.argv[1:9]
meta={}
p=os.path.join(D,'meta.json')
if os.path.exists(p):
    try: meta=json.load(open(p))
    except Exception: meta={}
meta.update({"property":ID,"variant":V,"suite_failures_with_change":int(suite),"demo_exit_with_change":int(w),"demo_exit_without_change":int(wo),
 "needs_to_manifest":open(os.path.join(D,'notes.md')).read()[:2000],"ran":"tools/seedtest.sh %s %s %s"%(ID,V,checks)})
import subprocess,time
new=json.loads(res)
head=subprocess.run(['git','-C','/verif','log','--format=%h','-1'],capture_output=True,text=True).stdout.strip()
for c,v in new.items():
    meta.setdefault("history",[]).append({"check":c,"tier":v["tier"],"exit":v["exit"],"framework_commit":head,"when":time.strftime("%Y-%m-%d %H:%M")})
meta.setdefault("checks",{}).update(new)
json.dump(meta,open(p,'w'),indent=1)
PY
