#!/bin/bash
# runs every check registered in MANIFEST.json (quick or thorough tier) from /verif against /repo and prints one line per check
T=${1:-quick}
cd /verif && sh ./build.sh > .build/build.log 2>&1 || { cat .build/build.log; exit 2; }
for id in $(python3 -c "import json;print(' '.join(c['property_id'] for c in json.load(open('/verif/MANIFEST.json'))['checks']))"); do
  /verif/bin/vcheck run $id --tier $T > /tmp/runall-$id.log 2>&1; rc=$?
  echo "$id exit=$rc $(tail -1 /tmp/runall-$id.log)"
done
