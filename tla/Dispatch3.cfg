CONSTANTS N = 3
          Cap = 4
INIT Init
NEXT Next
INVARIANTS TypeOK CapInv NotificationOrder NoDeadlock
CHECK_DEADLOCK FALSE
