------------------------------ MODULE Dispatch ------------------------------
(* Model M1 of the dispatch discipline of github.com/yinfei8/jrpc2 v0.13.1 as used by   *)
(* LuaHelper (langserver.CreateServer: Concurrency 4, AllowPush):                         *)
(*   - the reader appends inbound messages to a FIFO queue (Arrive),                      *)
(*   - the serve loop takes the head (Take) and holds it in waitForBarrier until every    *)
(*     notification issued before has completed (PassBarrier); only then the next         *)
(*     message is taken, so later messages are delayed behind a held one,                 *)
(*   - a dispatched message acquires one of Cap semaphore slots (Acquire = the handler    *)
(*     starts) and later finishes (Finish); a finished notification leaves the barrier.   *)
(* The behaviours of this model are replayed against the real jrpc2.Server by             *)
(* /verif/checks/c10_dispatch.go (see DESIGN.md Appendix A).                              *)
EXTENDS Naturals, Sequences, FiniteSets

CONSTANTS N, Cap

VARIABLES kind, arrived, inq, held, nbar, ready, running, done

vars == <<kind, arrived, inq, held, nbar, ready, running, done>>

Msgs == 1..N

Init == /\ kind \in [Msgs -> {"req", "ntf"}]
        /\ arrived = 0
        /\ inq = <<>>
        /\ held = 0
        /\ nbar = {}
        /\ ready = {}
        /\ running = {}
        /\ done = {}

Arrive == /\ arrived < N
          /\ arrived' = arrived + 1
          /\ inq' = Append(inq, arrived + 1)
          /\ UNCHANGED <<kind, held, nbar, ready, running, done>>

Take == /\ held = 0
        /\ Len(inq) > 0
        /\ held' = Head(inq)
        /\ inq' = Tail(inq)
        /\ UNCHANGED <<kind, arrived, nbar, ready, running, done>>

PassBarrier == /\ held # 0
               /\ nbar = {}
               /\ nbar' = IF kind[held] = "ntf" THEN {held} ELSE {}
               /\ ready' = ready \cup {held}
               /\ held' = 0
               /\ UNCHANGED <<kind, arrived, inq, running, done>>

Acquire(m) == /\ m \in ready
              /\ Cardinality(running) < Cap
              /\ running' = running \cup {m}
              /\ ready' = ready \ {m}
              /\ UNCHANGED <<kind, arrived, inq, held, nbar, done>>

Finish(m) == /\ m \in running
             /\ running' = running \ {m}
             /\ done' = done \cup {m}
             /\ nbar' = nbar \ {m}
             /\ UNCHANGED <<kind, arrived, inq, held, ready>>

Next == \/ Arrive \/ Take \/ PassBarrier
        \/ \E m \in Msgs : Acquire(m) \/ Finish(m)

Spec == Init /\ [][Next]_vars

TypeOK == /\ arrived \in 0..N
          /\ held \in 0..N
          /\ nbar \subseteq Msgs /\ ready \subseteq Msgs /\ running \subseteq Msgs /\ done \subseteq Msgs

CapInv == Cardinality(running) <= Cap

(* a message never runs (or is ready to run) before an earlier notification has finished *)
NotificationOrder == \A m \in ready \cup running : \A j \in Msgs : (j < m /\ kind[j] = "ntf") => j \in done

(* every message that arrived eventually can finish: the only terminal states have everything done *)
Terminal == arrived = N /\ done = Msgs
NoDeadlock == (~ ENABLED Next) => Terminal
=============================================================================
