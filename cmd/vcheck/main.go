package main

import (
	"fmt"
	"os"

	"strconv"

	"verif/checks"
	"verif/internal/core"
	"verif/internal/drv"
)

func usage() {
	fmt.Fprintln(os.Stderr, "usage: vcheck run <ID> --tier quick|thorough | replay <file> | freeze <ID> <tier> | list")
	os.Exit(2)
}

func main() {
	if len(os.Args) < 2 {
		usage()
	}
	code := 0
	switch os.Args[1] {
	case "run":
		if len(os.Args) < 3 {
			usage()
		}
		tier := os.Getenv("VERIF_TIER")
		for i := 3; i < len(os.Args); i++ {
			if os.Args[i] == "--tier" && i+1 < len(os.Args) {
				tier = os.Args[i+1]
			}
		}
		if tier == "" {
			tier = "quick"
		}
		code = core.Main(os.Args[2], tier)
	case "worker":
		core.WorkerMain(os.Args[2], os.Args[3])
	case "replay":
		code = core.Replay(os.Args[2])
	case "freeze":
		code = core.Freeze(os.Args[2], os.Args[3])
	case "raceworker":
		lo, _ := strconv.ParseInt(os.Args[3], 10, 64)
		hi, _ := strconv.ParseInt(os.Args[4], 10, 64)
		checks.RaceWorker(os.Args[2], lo, hi)
	case "c02":
		checks.C02Debug(os.Args[2:])
	case "c08":
		checks.C08Debug(os.Args[2:])
	case "list":
		for _, id := range core.IDs() {
			fmt.Println(id)
		}
	default:
		usage()
	}
	drv.Cleanup()
	os.Exit(code)
}
