// vinstr generates the build overlay (tag verif) from /repo's current working
// tree: accessor files added to repository packages and type-directed source
// rewrites.  Nothing is written to /repo.
package main

import (
	"bytes"
	"encoding/json"
	"fmt"
	"go/ast"
	"go/format"
	"go/parser"
	"go/token"
	"os"
	"path/filepath"
)

var repo = func() string {
	if r := os.Getenv("VERIF_REPO"); r != "" {
		return r + "/luahelper-lsp"
	}
	return "/repo/luahelper-lsp"
}()
var home = func() string {
	if h := os.Getenv("VERIF_HOME"); h != "" {
		return h
	}
	return "/verif"
}()
var buildDir = func() string {
	if os.Getenv("VERIF_REPO") != "" {
		tag := os.Getenv("VERIF_ALT_TAG")
		if tag == "" {
			tag = "alt"
		}
		return home + "/.build/" + tag
	}
	return home + "/.build"
}()
var out = buildDir + "/gen"

type overlay struct {
	Replace map[string]string
}

func must(err error) {
	if err != nil {
		fmt.Fprintln(os.Stderr, "vinstr:", err)
		os.Exit(2)
	}
}

func writeIfChanged(path string, b []byte) {
	if old, err := os.ReadFile(path); err == nil && bytes.Equal(old, b) {
		return
	}
	must(os.MkdirAll(filepath.Dir(path), 0o755))
	must(os.WriteFile(path, b, 0o644))
}

// dropTelemetry removes `go l.UDPReportOnline()` (a detached goroutine that
// opens a UDP socket and sleeps for ever) from initialize.go.
func dropTelemetry(ov *overlay) {
	src := filepath.Join(repo, "langserver/initialize.go")
	fset := token.NewFileSet()
	f, err := parser.ParseFile(fset, src, nil, parser.ParseComments)
	must(err)
	n := 0
	ast.Inspect(f, func(nd ast.Node) bool {
		bl, ok := nd.(*ast.BlockStmt)
		if !ok {
			return true
		}
		var keep []ast.Stmt
		for _, st := range bl.List {
			if g, ok := st.(*ast.GoStmt); ok {
				if sel, ok := g.Call.Fun.(*ast.SelectorExpr); ok && sel.Sel.Name == "UDPReportOnline" {
					n++
					continue
				}
			}
			keep = append(keep, st)
		}
		bl.List = keep
		return true
	})
	var buf bytes.Buffer
	must(format.Node(&buf, fset, f))
	dst := filepath.Join(out, "langserver/initialize.go")
	writeIfChanged(dst, buf.Bytes())
	ov.Replace[src] = dst
	fmt.Printf("vinstr: initialize.go: %d telemetry goroutine(s) dropped\n", n)
}

func main() {
	ov := &overlay{Replace: map[string]string{}}
	b, err := os.ReadFile(home + "/overlay/langserver_access.go.txt")
	must(err)
	dst := filepath.Join(out, "langserver/zz_verif_access.go")
	writeIfChanged(dst, b)
	ov.Replace[filepath.Join(repo, "langserver/zz_verif_access.go")] = dst
	dropTelemetry(ov)
	jb, _ := json.MarshalIndent(ov, "", " ")
	writeIfChanged(buildDir+"/overlay.json", jb)
}
