// vinstr generates the build overlay (tag verif) from the repository's current working tree:
//   - accessor files added to repository packages,
//   - the virtual packages langserver/vrt (controlled runtime) and langserver/vrt/vsync,
//   - instrumented copies of every non-test source file under langserver (purely syntactic rewrites, see DESIGN.md §8.4),
//   - two files of the Go runtime (map iteration start and goroutine id hooks).
// Nothing is written to the repository.
package main

import (
	"bytes"
	"encoding/json"
	"fmt"
	"go/ast"
	"go/format"
	"go/parser"
	"go/token"
	"os"
	"os/exec"
	"path/filepath"
	"strings"
)

var home = func() string {
	if h := os.Getenv("VERIF_HOME"); h != "" {
		return h
	}
	return "/verif"
}()
var repo = func() string {
	if r := os.Getenv("VERIF_REPO"); r != "" {
		return r + "/luahelper-lsp"
	}
	return "/repo/luahelper-lsp"
}()
var buildDir = func() string {
	if os.Getenv("VERIF_REPO") != "" {
		tag := os.Getenv("VERIF_ALT_TAG")
		if tag == "" {
			tag = "alt"
		}
		return home + "/.build/" + tag
	}
	return home + "/.build"
}()
var out = buildDir + "/gen"

type overlay struct {
	Replace map[string]string
}

func must(err error) {
	if err != nil {
		fmt.Fprintln(os.Stderr, "vinstr:", err)
		os.Exit(2)
	}
}

func writeIfChanged(path string, b []byte) {
	if old, err := os.ReadFile(path); err == nil && bytes.Equal(old, b) {
		return
	}
	must(os.MkdirAll(filepath.Dir(path), 0o755))
	must(os.WriteFile(path, b, 0o644))
}

// receiver types whose methods become activation / scheduling points
var sharedTypes = map[string]bool{"LspServer": true, "AllProject": true, "GlobalConfig": true, "DirManager": true, "FileMapCache": true,
	"FileIndexInfo": true, "LRUCache": true, "CompleteCache": true, "FileStruct": true, "SingleProjectResult": true, "AnalysisThird": true}

// range expressions known to be channels (purely syntactic instrumenter; an unlisted channel range would
// block outside the scheduler and is reported as a harness error, never as a violation)
func isChanRange(e ast.Expr) bool {
	if id, ok := e.(*ast.Ident); ok {
		n := strings.ToLower(id.Name)
		return strings.HasSuffix(n, "chan") || strings.HasSuffix(n, "ch")
	}
	return false
}

type stats struct {
	gos, sends, recvs, closes, selects, ranges, recovers, methods, writers, cpus, clocks, syncs, dropped int
}

func rootIdent(e ast.Expr) string {
	for {
		switch x := e.(type) {
		case *ast.Ident:
			return x.Name
		case *ast.SelectorExpr:
			e = x.X
		case *ast.IndexExpr:
			e = x.X
		case *ast.StarExpr:
			e = x.X
		case *ast.ParenExpr:
			e = x.X
		default:
			return ""
		}
	}
}

// isWriter: the method body assigns through its receiver (r.f = , r.f[k] = , r.f++ , delete(r.f, k)).
func isWriter(recv string, body *ast.BlockStmt) bool {
	w := false
	ast.Inspect(body, func(n ast.Node) bool {
		switch x := n.(type) {
		case *ast.AssignStmt:
			for _, l := range x.Lhs {
				if _, plain := l.(*ast.Ident); !plain && rootIdent(l) == recv {
					w = true
				}
			}
		case *ast.IncDecStmt:
			if _, plain := x.X.(*ast.Ident); !plain && rootIdent(x.X) == recv {
				w = true
			}
		case *ast.CallExpr:
			if id, ok := x.Fun.(*ast.Ident); ok && id.Name == "delete" && len(x.Args) > 0 && rootIdent(x.Args[0]) == recv {
				w = true
			}
		}
		return true
	})
	return w
}

func sel(pkg, name string) *ast.SelectorExpr {
	return &ast.SelectorExpr{X: ast.NewIdent(pkg), Sel: ast.NewIdent(name)}
}
func call(fun ast.Expr, args ...ast.Expr) *ast.CallExpr { return &ast.CallExpr{Fun: fun, Args: args} }
func lit(s string) *ast.BasicLit {
	return &ast.BasicLit{Kind: token.STRING, Value: fmt.Sprintf("%q", s)}
}

// recvChans lists the channel expressions received from in a statement (not descending into function literals).
func recvChans(n ast.Node) []ast.Expr {
	var out []ast.Expr
	ast.Inspect(n, func(x ast.Node) bool {
		switch u := x.(type) {
		case *ast.FuncLit:
			return false
		case *ast.BlockStmt:
			if x != n {
				return false
			}
		case *ast.UnaryExpr:
			if u.Op == token.ARROW {
				out = append(out, u.X)
			}
		}
		return true
	})
	return out
}

type rewriter struct {
	fset    *token.FileSet
	file    string
	st      *stats
	useVrt  bool
	keepPkg map[string]bool // packages that need a `var _ =` anchor
}

func (rw *rewriter) stmtList(list []ast.Stmt) []ast.Stmt {
	var out []ast.Stmt
	for _, s := range list {
		out = append(out, rw.stmt(s)...)
	}
	return out
}

func (rw *rewriter) block(b *ast.BlockStmt) {
	if b != nil {
		b.List = rw.stmtList(b.List)
	}
}

// stmt rewrites one statement, possibly into several.
func (rw *rewriter) stmt(s ast.Stmt) []ast.Stmt {
	switch x := s.(type) {
	case *ast.GoStmt:
		// drop the detached telemetry goroutine
		if se, ok := x.Call.Fun.(*ast.SelectorExpr); ok && se.Sel.Name == "UDPReportOnline" {
			rw.st.dropped++
			return nil
		}
		rw.st.gos++
		rw.useVrt = true
		rw.exprFuncLits(x.Call)
		// evaluate the arguments now, start the thread through the scheduler
		var pre []ast.Stmt
		c := &ast.CallExpr{Fun: x.Call.Fun, Ellipsis: x.Call.Ellipsis}
		for i, a := range x.Call.Args {
			tmp := ast.NewIdent(fmt.Sprintf("vrtArg%d", i))
			pre = append(pre, &ast.AssignStmt{Lhs: []ast.Expr{tmp}, Tok: token.DEFINE, Rhs: []ast.Expr{a}})
			c.Args = append(c.Args, tmp)
		}
		body := &ast.BlockStmt{List: []ast.Stmt{&ast.ExprStmt{X: c}}}
		goCall := &ast.ExprStmt{X: call(sel("vrt", "Go"), &ast.FuncLit{Type: &ast.FuncType{Params: &ast.FieldList{}}, Body: body})}
		return []ast.Stmt{&ast.BlockStmt{List: append(pre, goCall)}}
	case *ast.SendStmt:
		rw.st.sends++
		rw.useVrt = true
		m := ast.NewIdent("vrtManaged")
		return []ast.Stmt{&ast.BlockStmt{List: []ast.Stmt{
			&ast.AssignStmt{Lhs: []ast.Expr{m}, Tok: token.DEFINE, Rhs: []ast.Expr{call(sel("vrt", "BeforeSend"), x.Chan)}},
			x,
			&ast.ExprStmt{X: call(sel("vrt", "AfterSend"), m)},
		}}}
	case *ast.RangeStmt:
		rw.block(x.Body)
		if isChanRange(x.X) && x.Value == nil {
			rw.st.ranges++
			rw.useVrt = true
			okv := ast.NewIdent("vrtOk")
			var lhs []ast.Expr
			if x.Key != nil {
				lhs = []ast.Expr{x.Key, okv}
			} else {
				lhs = []ast.Expr{ast.NewIdent("_"), okv}
			}
			tok := x.Tok
			if tok == token.ILLEGAL {
				tok = token.ASSIGN
			}
			if x.Key == nil {
				tok = token.DEFINE
			}
			pre := []ast.Stmt{
				&ast.ExprStmt{X: call(sel("vrt", "BeforeRecv"), x.X)},
				&ast.AssignStmt{Lhs: lhs, Tok: token.DEFINE, Rhs: []ast.Expr{&ast.UnaryExpr{Op: token.ARROW, X: x.X}}},
				&ast.IfStmt{Cond: &ast.UnaryExpr{Op: token.NOT, X: okv}, Body: &ast.BlockStmt{List: []ast.Stmt{&ast.BranchStmt{Tok: token.BREAK}}}},
			}
			_ = tok
			return []ast.Stmt{&ast.ForStmt{Body: &ast.BlockStmt{List: append(pre, x.Body.List...)}}}
		}
		return []ast.Stmt{x}
	case *ast.BlockStmt:
		rw.block(x)
		return []ast.Stmt{x}
	case *ast.IfStmt:
		// recover site: if r := recover(); r != nil { ... }
		if as, ok := x.Init.(*ast.AssignStmt); ok && len(as.Rhs) == 1 && len(as.Lhs) == 1 {
			if c, ok := as.Rhs[0].(*ast.CallExpr); ok {
				if id, ok := c.Fun.(*ast.Ident); ok && id.Name == "recover" {
					rw.st.recovers++
					rw.useVrt = true
					pos := rw.fset.Position(x.Pos())
					site := fmt.Sprintf("%s:%d", rw.file, pos.Line)
					x.Body.List = append([]ast.Stmt{&ast.ExprStmt{X: call(sel("vrt", "Recovered"), as.Lhs[0], lit(site))}}, x.Body.List...)
				}
			}
		}
		rw.block(x.Body)
		if x.Else != nil {
			x.Else = rw.stmt(x.Else)[0]
		}
		return rw.withRecv(x, x.Init)
	case *ast.ForStmt:
		rw.block(x.Body)
		return []ast.Stmt{x}
	case *ast.SwitchStmt:
		rw.block(x.Body)
		return []ast.Stmt{x}
	case *ast.TypeSwitchStmt:
		rw.block(x.Body)
		return []ast.Stmt{x}
	case *ast.SelectStmt:
		rw.block(x.Body)
		return []ast.Stmt{x}
	case *ast.CaseClause:
		x.Body = rw.stmtList(x.Body)
		return []ast.Stmt{x}
	case *ast.CommClause:
		x.Body = rw.stmtList(x.Body)
		return []ast.Stmt{x}
	case *ast.LabeledStmt:
		r := rw.stmt(x.Stmt)
		if len(r) == 1 {
			x.Stmt = r[0]
		} else {
			x.Stmt = &ast.BlockStmt{List: r}
		}
		return []ast.Stmt{x}
	case *ast.ExprStmt:
		rw.exprFuncLits(x.X)
		if c, ok := x.X.(*ast.CallExpr); ok {
			if id, ok := c.Fun.(*ast.Ident); ok && id.Name == "close" && len(c.Args) == 1 {
				rw.st.closes++
				rw.useVrt = true
				return []ast.Stmt{&ast.ExprStmt{X: call(sel("vrt", "BeforeClose"), c.Args[0])}, x}
			}
		}
		return rw.withRecv(x, x)
	case *ast.AssignStmt:
		for _, r := range x.Rhs {
			rw.exprFuncLits(r)
		}
		return rw.withRecv(x, x)
	case *ast.DeclStmt:
		return rw.withRecv(x, x)
	case *ast.ReturnStmt:
		for _, r := range x.Results {
			rw.exprFuncLits(r)
		}
		return rw.withRecv(x, x)
	case *ast.DeferStmt:
		rw.exprFuncLits(x.Call)
		return []ast.Stmt{x}
	}
	return []ast.Stmt{s}
}

// withRecv prefixes a statement by vrt.BeforeRecv for every receive operation it contains.
func (rw *rewriter) withRecv(s ast.Stmt, scan ast.Node) []ast.Stmt {
	if scan == nil {
		return []ast.Stmt{s}
	}
	var pre []ast.Stmt
	for _, ch := range recvChans(scan) {
		rw.st.recvs++
		rw.useVrt = true
		pre = append(pre, &ast.ExprStmt{X: call(sel("vrt", "BeforeRecv"), ch)})
	}
	return append(pre, s)
}

// exprFuncLits rewrites the bodies of function literals inside an expression.
func (rw *rewriter) exprFuncLits(e ast.Node) {
	ast.Inspect(e, func(n ast.Node) bool {
		if fl, ok := n.(*ast.FuncLit); ok {
			rw.block(fl.Body)
			return false
		}
		return true
	})
}

// selectors rewrites reflect.Select, runtime.NumCPU(), time.Now(), time.Since( in the whole file.
func (rw *rewriter) selectors(f *ast.File) {
	ast.Inspect(f, func(n ast.Node) bool {
		c, ok := n.(*ast.CallExpr)
		if !ok {
			return true
		}
		se, ok := c.Fun.(*ast.SelectorExpr)
		if !ok {
			return true
		}
		pk, ok := se.X.(*ast.Ident)
		if !ok {
			return true
		}
		switch pk.Name + "." + se.Sel.Name {
		case "reflect.Select":
			c.Fun = sel("vrt", "Select")
			rw.st.selects++
			rw.useVrt = true
			rw.keepPkg["reflect"] = true
		case "runtime.NumCPU":
			inner := &ast.CallExpr{Fun: sel("runtime", "NumCPU")}
			c.Fun = sel("vrt", "NumCPU")
			c.Args = []ast.Expr{inner}
			rw.st.cpus++
			rw.useVrt = true
			return false
		case "runtime.GOMAXPROCS":
			// only the query form GOMAXPROCS(0): the pool width becomes the harness's decision
			if len(c.Args) == 1 {
				if bl, ok := c.Args[0].(*ast.BasicLit); ok && bl.Value == "0" {
					inner := &ast.CallExpr{Fun: sel("runtime", "GOMAXPROCS"), Args: []ast.Expr{&ast.BasicLit{Kind: token.INT, Value: "0"}}}
					c.Fun = sel("vrt", "NumCPU")
					c.Args = []ast.Expr{inner}
					rw.st.cpus++
					rw.useVrt = true
					return false
				}
			}
		case "time.Now":
			c.Fun = sel("vrt", "Now")
			rw.st.clocks++
			rw.useVrt = true
			rw.keepPkg["time"] = true
		case "time.Since":
			c.Fun = sel("vrt", "Since")
			rw.st.clocks++
			rw.useVrt = true
			rw.keepPkg["time"] = true
		}
		return true
	})
}

func instrumentFile(src, rel string, st *stats) []byte {
	fset := token.NewFileSet()
	f, err := parser.ParseFile(fset, src, nil, parser.ParseComments)
	must(err)
	rw := &rewriter{fset: fset, file: rel, st: st, keepPkg: map[string]bool{}}
	for _, d := range f.Decls {
		fd, ok := d.(*ast.FuncDecl)
		if !ok || fd.Body == nil {
			continue
		}
		rw.block(fd.Body)
		// shared-object methods: activation + scheduling point
		if fd.Recv != nil && len(fd.Recv.List) == 1 && len(fd.Recv.List[0].Names) == 1 {
			rn := fd.Recv.List[0].Names[0].Name
			tn := ""
			if se, ok := fd.Recv.List[0].Type.(*ast.StarExpr); ok {
				if id, ok := se.X.(*ast.Ident); ok {
					tn = id.Name
				}
			}
			if rn != "_" && sharedTypes[tn] {
				w := isWriter(rn, fd.Body)
				st.methods++
				if w {
					st.writers++
				}
				rw.useVrt = true
				wl := "false"
				if w {
					wl = "true"
				}
				enter := call(sel("vrt", "Enter"), ast.NewIdent(rn), lit(tn), lit(fd.Name.Name), ast.NewIdent(wl))
				fd.Body.List = append([]ast.Stmt{&ast.DeferStmt{Call: call(sel("vrt", "Exit"), enter)}}, fd.Body.List...)
			}
		}
	}
	rw.selectors(f)
	// import "sync" -> the shim (named import keeps sync.Mutex / sync.WaitGroup spellings)
	for _, im := range f.Imports {
		if im.Path.Value == `"sync"` {
			im.Path.Value = `"luahelper-lsp/langserver/vrt/vsync"`
			im.Name = ast.NewIdent("sync")
			st.syncs++
		}
	}
	var buf bytes.Buffer
	must(format.Node(&buf, fset, f))
	s := buf.String()
	if rw.useVrt {
		// add the import after the package clause (gofmt-insensitive: a separate import declaration)
		i := strings.Index(s, "\nimport ")
		if i < 0 {
			j := strings.Index(s, "\npackage ")
			k := strings.Index(s[j+1:], "\n") + j + 1
			s = s[:k+1] + "\nimport vrt \"luahelper-lsp/langserver/vrt\"\n" + s[k+1:]
		} else {
			s = s[:i] + "\nimport vrt \"luahelper-lsp/langserver/vrt\"\n" + s[i:]
		}
	}
	for p := range rw.keepPkg {
		anchor := map[string]string{"reflect": "reflect.ValueOf", "time": "time.Second"}[p]
		s += "\nvar _ = " + anchor + "\n"
	}
	return []byte("//go:build verif\n\n" + s)
}

func main() {
	ov := &overlay{Replace: map[string]string{}}
	var st stats
	// 1. accessors
	b, err := os.ReadFile(home + "/overlay/langserver_access.go.txt")
	must(err)
	dst := filepath.Join(out, "langserver/zz_verif_access.go")
	writeIfChanged(dst, b)
	ov.Replace[filepath.Join(repo, "langserver/zz_verif_access.go")] = dst
	// 2. virtual packages
	for _, p := range [][2]string{{"vrt/vrt.go.txt", "langserver/vrt/vrt.go"}, {"vsync/vsync.go.txt", "langserver/vrt/vsync/vsync.go"}} {
		b, err := os.ReadFile(home + "/overlay/" + p[0])
		must(err)
		dst := filepath.Join(out, p[1])
		writeIfChanged(dst, b)
		ov.Replace[filepath.Join(repo, p[1])] = dst
	}
	// 3. instrumented sources
	nfiles := 0
	must(filepath.Walk(filepath.Join(repo, "langserver"), func(p string, info os.FileInfo, err error) error {
		if err != nil {
			return err
		}
		rel, _ := filepath.Rel(repo, p)
		if info.IsDir() {
			if strings.HasPrefix(rel, "langserver/protocol") || strings.HasPrefix(rel, "langserver/vrt") {
				return filepath.SkipDir
			}
			return nil
		}
		if !strings.HasSuffix(p, ".go") || strings.HasSuffix(p, "_test.go") || strings.HasSuffix(p, "zz_verif_access.go") {
			return nil
		}
		dst := filepath.Join(out, rel)
		writeIfChanged(dst, instrumentFile(p, rel, &st))
		ov.Replace[p] = dst
		nfiles++
		return nil
	}))
	// 4. Go runtime hooks
	gr, err := exec.Command("go", "env", "GOROOT").Output()
	must(err)
	goroot := strings.TrimSpace(string(gr))
	mp, err := os.ReadFile(filepath.Join(goroot, "src/runtime/map.go"))
	must(err)
	const needle = "r := uintptr(rand())"
	if bytes.Count(mp, []byte(needle)) != 1 {
		must(fmt.Errorf("runtime/map.go: expected exactly one %q", needle))
	}
	mp = bytes.Replace(mp, []byte(needle), []byte(needle+"\n\tif VerifMapMode != 0 {\n\t\tr = verifMapStart(unsafe.Pointer(t), h.count, h.B)\n\t}"), 1)
	// the per-map hash seed decides in which bucket a key lands, i.e. the iteration order of maps with more than 8
	// entries: it is fixed together with the start position
	const seedNeedle = "h.hash0 = uint32(rand())"
	if bytes.Count(mp, []byte(seedNeedle)) < 3 {
		must(fmt.Errorf("runtime/map.go: expected at least three %q", seedNeedle))
	}
	mp = bytes.ReplaceAll(mp, []byte(seedNeedle), []byte(seedNeedle+"\n\tif VerifMapMode != 0 {\n\t\th.hash0 = VerifMapSeed\n\t}"))
	dst = filepath.Join(out, "goruntime/map.go")
	writeIfChanged(dst, mp)
	ov.Replace[filepath.Join(goroot, "src/runtime/map.go")] = dst
	b, err = os.ReadFile(home + "/overlay/runtime/verif.go.txt")
	must(err)
	dst = filepath.Join(out, "goruntime/verif.go")
	writeIfChanged(dst, b)
	ov.Replace[filepath.Join(goroot, "src/runtime/verif.go")] = dst

	// 5. directory listing order (package os): whole-directory reads are permuted under VerifDirMode
	dp, err := os.ReadFile(filepath.Join(goroot, "src/os/dir.go"))
	must(err)
	for _, pr := range [][2]string{
		{"_, _, infos, err := f.readdir(n, readdirFileInfo)", "if n <= 0 {\n\t\tverifPermute(infos)\n\t}"},
		{"names, _, _, err = f.readdir(n, readdirName)", "if n <= 0 {\n\t\tverifPermute(names)\n\t}"},
		{"_, dirents, _, err := f.readdir(n, readdirDirEntry)", "if n <= 0 {\n\t\tverifPermute(dirents)\n\t}"},
	} {
		if bytes.Count(dp, []byte(pr[0])) != 1 {
			must(fmt.Errorf("os/dir.go: expected exactly one %q", pr[0]))
		}
		dp = bytes.Replace(dp, []byte(pr[0]), []byte(pr[0]+"\n\t"+pr[1]), 1)
	}
	dst = filepath.Join(out, "goos/dir.go")
	writeIfChanged(dst, dp)
	ov.Replace[filepath.Join(goroot, "src/os/dir.go")] = dst
	b, err = os.ReadFile(home + "/overlay/os/verif.go.txt")
	must(err)
	dst = filepath.Join(out, "goos/verif.go")
	writeIfChanged(dst, b)
	ov.Replace[filepath.Join(goroot, "src/os/verif.go")] = dst

	jb, _ := json.MarshalIndent(ov, "", " ")
	writeIfChanged(buildDir+"/overlay.json", jb)
	fmt.Printf("vinstr: %d files; go=%d (telemetry dropped %d) send=%d recv=%d close=%d select=%d chan-range=%d recover=%d numcpu=%d clock=%d sync-imports=%d shared-methods=%d (writers %d)\n",
		nfiles, st.gos, st.dropped, st.sends, st.recvs, st.closes, st.selects, st.ranges, st.recovers, st.cpus, st.clocks, st.syncs, st.methods, st.writers)
}
